import json, sys, warnings, copy
warnings.simplefilter("ignore")
import dask
dask.config.set(scheduler="sync")
import subprocess, os
RUN = r'''
import json, sys, warnings
warnings.simplefilter("ignore")
import dask
dask.config.set(scheduler="sync")
import numpy as np
np.seterr(all="ignore")
from vf.common import Ctx
from vf.checks import c09
from vf.gen import Prog
case = json.load(sys.stdin)
ctx = Ctx("C09","quick",0)
c09.setup(ctx)
g = Prog.replay(case["steps"])
pool = c09.Pool(g, list(case["members"]))
problems = c09.run_history(pool, case["actions"], ctx)
print("RESULT", len(problems), [p[2] for p in problems])
'''
def fails(case):
    env=dict(os.environ); env["PYTHONPATH"]="/verif:/repo"; env["PYTHONHASHSEED"]="0"
    p=subprocess.run(["/venv/bin/python","-c",RUN],input=json.dumps(case),capture_output=True,text=True,env=env,timeout=600)
    for l in p.stdout.splitlines():
        if l.startswith("RESULT"):
            return sys.argv[3] in l
    print(p.stderr[-500:]); return False
d=json.load(open(sys.argv[1])); case=d["case"]
acts=case["actions"]
# cut after failing action
idx=int(sys.argv[2])
acts=acts[:idx+1]
case["actions"]=acts
print("full fails:", fails(case))
# greedy removal (keep follow_on actions that add vars needed: removing a follow_on shifts ids -> keep all follow_on)
i=0
keep=list(acts)
while i < len(keep)-1:
    if keep[i]["kind"]=="follow_on":
        i+=1; continue
    trial=keep[:i]+keep[i+1:]
    c=dict(case); c["actions"]=trial
    if fails(c):
        keep=trial
    else:
        i+=1
print(len(keep))
for a in keep: print(a)
json.dump({"case":dict(case,actions=keep)}, open("/verif/scratch/c09min.json","w"))
