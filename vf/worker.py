"""One worker process: runs a slice of a check's workload under the check's monitors."""

from __future__ import annotations

import argparse
import faulthandler
import importlib
import json
import os
import random
import sys
import warnings

from vf.common import CaseTimeout, Ctx, Inconclusive, case_alarm, jdump, now, sanity_repo, short_tb


def load(prop):
    return importlib.import_module(f"vf.checks.{prop.lower()}")


def run_worker(prop, tier, seed, index, out, replay=None):
    faulthandler.enable()
    warnings.simplefilter("ignore")
    import numpy as np

    np.seterr(all="ignore")
    ctx = Ctx(prop, tier, seed, index)
    t0 = now()
    try:
        ctx.notes["dask_array_file"] = sanity_repo()
        import dask

        dask.config.set(scheduler="sync")
        mod = load(prop)
        if hasattr(mod, "setup"):
            mod.setup(ctx)
        if replay is not None:
            case = replay["case"]
            ctx.current_case = case
            with case_alarm(getattr(mod, "CASE_TIMEOUT", 60) * 5):
                mod.replay_case(case, ctx)
            ctx.evaluations += 1
        elif hasattr(mod, "run_all"):
            ctx.nworkers = mod.WORKERS[tier] if isinstance(mod.WORKERS, dict) else mod.WORKERS
            ctx.deadline = t0 + mod.TIME[tier]
            mod.run_all(ctx)
        else:
            ncases = mod.CASES[tier]
            cap = mod.TIME[tier]
            per_case = getattr(mod, "CASE_TIMEOUT", 60)
            herr = 0
            for n in range(ncases):
                if now() - t0 > cap:
                    ctx.count("stopped_by_time_cap")
                    break
                rng = random.Random(f"{seed}:{index}:{n}")
                ctx.current_case = None
                nviol, mechs = len(ctx.violations), ctx.viol_mechs.copy()
                alarm = case_alarm(per_case)
                try:
                    with alarm:
                        mod.run_one(rng, ctx)
                    if alarm.fired:
                        raise CaseTimeout()
                    ctx.evaluations += 1
                except CaseTimeout:
                    # nothing a case concluded after its watchdog fired is believed
                    del ctx.violations[nviol:]
                    ctx.viol_mechs = mechs
                    ctx.count("case_timeouts")
                    ctx.notes.setdefault("timeouts", []).append(ctx.current_case)
                except Inconclusive as e:
                    ctx.inconc(str(e))
                except Exception as e:  # harness error: never a verdict
                    if alarm.fired:
                        del ctx.violations[nviol:]
                        ctx.viol_mechs = mechs
                        ctx.count("case_timeouts")
                        continue
                    herr += 1
                    ctx.count("harness_errors")
                    lst = ctx.notes.setdefault("harness_errors", [])
                    if len(lst) < 5:
                        lst.append({"err": short_tb(e, 12), "case": ctx.current_case})
            if ctx.counters.get("case_timeouts", 0) > max(2, 0.02 * ncases):
                ctx.inconc(f"{ctx.counters['case_timeouts']} cases hit the wall-clock watchdog")
            if herr > max(2, 0.02 * max(1, ctx.evaluations + herr)):
                ctx.inconc(f"{herr} harness errors")
        if hasattr(mod, "finalize") and replay is None:
            mod.finalize(ctx)
    except Inconclusive as e:
        ctx.inconc(str(e))
    except Exception as e:
        ctx.inconc("worker crashed: " + short_tb(e, 12))
    res = ctx.result()
    res["wall_s"] = now() - t0
    jdump(res, out)


def main():
    ap = argparse.ArgumentParser()
    ap.add_argument("prop")
    ap.add_argument("--tier", default="quick")
    ap.add_argument("--seed", type=int, default=0)
    ap.add_argument("--index", type=int, default=0)
    ap.add_argument("--out", required=True)
    ap.add_argument("--replay")
    a = ap.parse_args()
    replay = json.load(open(a.replay)) if a.replay else None
    run_worker(a.prop, a.tier, a.seed, a.index, a.out, replay)


if __name__ == "__main__":
    main()
