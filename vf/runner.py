"""./check <ID> --tier quick|thorough [--replay file]

Fans a check's workload out to worker subprocesses, merges what their monitors
observed, writes evidence/<ID>.json and prints the verdict:

  exit 0  held on everything observed (KNOWN-FINDING lines for listed findings)
  exit 1  VIOLATION property=<id> replay=<path>
  exit 2  INCONCLUSIVE (a deciding monitor was never reached, harness trouble, watchdog)
"""

from __future__ import annotations

import argparse
import importlib
import json
import os
import subprocess
import sys
import tempfile
import time
from collections import Counter

from vf.common import PY, REPO, VERIF, ensure_deps, h64, jdump


# mutation runs (tools/seed_eval.py) write their evidence and replays elsewhere
OUT = os.environ.get("VERIF_OUT", VERIF)


def load_known():
    p = os.path.join(VERIF, "known_findings.json")
    if not os.path.exists(p):
        return []
    return json.load(open(p)).get("findings", [])


def spawn(prop, tier, seed, index, out, replay=None, extra_env=None):
    cmd = [PY, "-m", "vf.worker", prop, "--tier", tier, "--seed", str(seed), "--index", str(index), "--out", out]
    if replay:
        cmd += ["--replay", replay]
    env = dict(os.environ)
    env["PYTHONPATH"] = f"{VERIF}:{REPO}"
    env.setdefault("PYTHONHASHSEED", "0")
    env["PYTHONDONTWRITEBYTECODE"] = "1"
    env["OMP_NUM_THREADS"] = "1"
    env["OPENBLAS_NUM_THREADS"] = "1"
    env["MKL_NUM_THREADS"] = "1"
    if extra_env:
        env.update(extra_env)
    log = open(out + ".log", "w")
    return subprocess.Popen(cmd, stdout=log, stderr=subprocess.STDOUT, env=env, cwd=VERIF)


def merge(results):
    m = {
        "evaluations": 0,
        "counters": Counter(),
        "tables": {},
        "distinct": set(),
        "nontrivial": set(),
        "samples": [],
        "violations": [],
        "viol_mechs": Counter(),
        "inconclusive": [],
        "maxima": {},
        "notes": {},
    }
    for r in results:
        m["evaluations"] += r["evaluations"]
        m["counters"].update(r["counters"])
        for t, d in r["tables"].items():
            m["tables"].setdefault(t, Counter()).update(d)
        m["distinct"].update(r["distinct"])
        m["nontrivial"].update(r["nontrivial"])
        if len(m["samples"]) < 4:
            m["samples"].extend(r["samples"][:1])
        m["violations"].extend(r["violations"])
        m["viol_mechs"].update(r.get("viol_mechs", {}))
        for x in r["inconclusive"]:
            if x not in m["inconclusive"]:
                m["inconclusive"].append(x)
        for k, v in r["maxima"].items():
            if k not in m["maxima"] or v > m["maxima"][k]:
                m["maxima"][k] = v
        for k, v in r["notes"].items():
            if k == "dask_array_file":
                m["notes"][k] = v
            elif isinstance(v, list):
                lst = m["notes"].setdefault(k, [])
                if len(lst) < 6:
                    lst.extend(v[:2])
            else:
                m["notes"].setdefault(k, v)
    return m


def run_check(prop, tier, seed, replay=None):
    t0 = time.monotonic()
    ensure_deps()
    mod = importlib.import_module(f"vf.checks.{prop.lower()}")
    tmp = tempfile.mkdtemp(prefix=f"vf_{prop}_", dir=os.path.join(VERIF, "scratch") if os.path.isdir(os.path.join(VERIF, "scratch")) else None)
    results = []
    crashed = []
    try:
        if replay:
            out = os.path.join(tmp, "replay.json")
            p = spawn(prop, tier, seed, 0, out, replay=replay)
            try:
                p.wait(timeout=1800)
            except subprocess.TimeoutExpired:
                p.kill()
            if os.path.exists(out):
                results.append(json.load(open(out)))
            else:
                crashed.append((0, open(out + ".log").read()[-2000:]))
        else:
            nworkers = mod.WORKERS[tier] if isinstance(mod.WORKERS, dict) else mod.WORKERS
            hard = mod.TIME[tier] * 2 + 180
            procs = []
            for i in range(nworkers):
                out = os.path.join(tmp, f"w{i}.json")
                extra = mod.worker_env(i, tier) if hasattr(mod, "worker_env") else None
                procs.append((i, out, spawn(prop, tier, seed, i, out, extra_env=extra)))
            deadline = time.monotonic() + hard
            for i, out, p in procs:
                try:
                    p.wait(timeout=max(1, deadline - time.monotonic()))
                except subprocess.TimeoutExpired:
                    p.kill()
                    p.wait()
                if os.path.exists(out):
                    results.append(json.load(open(out)))
                else:
                    crashed.append((i, open(out + ".log").read()[-1500:]))
    finally:
        import shutil

        if not os.environ.get("VERIF_KEEP_TMP"):
            shutil.rmtree(tmp, ignore_errors=True)

    m = merge(results)
    for i, log in crashed:
        m["inconclusive"].append(f"worker {i} produced no result (killed/crashed): {log[-300:]}")
    if hasattr(mod, "finalize_merged") and not replay:
        mod.finalize_merged(m, tier)

    # ---- verdict ----------------------------------------------------------
    known = [k for k in load_known() if k["property"] == prop]
    known_mechs = {k["mechanism"]: k for k in known}
    new_viol = []
    known_hit = Counter()
    for mech, n in m["viol_mechs"].items():
        if mech in known_mechs:
            known_hit[mech] += n
    for v in m["violations"]:
        if v["mech"] not in known_mechs:
            new_viol.append(v)
    lines = []
    for mech, n in sorted(known_hit.items()):
        lines.append(f"KNOWN-FINDING: property={prop} {known_mechs[mech]['what']} [mechanism={mech}; witnessed {n}x this run]")
    replay_paths = []
    if new_viol:
        rdir = os.path.join(OUT, "replays", prop)
        os.makedirs(rdir, exist_ok=True)
        seenm = Counter()
        for v in new_viol:
            seenm[v["mech"]] += 1
            if seenm[v["mech"]] > 2:
                continue
            path = os.path.join(rdir, f"{h64(v)}.json")
            jdump(v, path, indent=1)
            replay_paths.append((path, v))
    wall = time.monotonic() - t0

    if not replay:
        write_evidence(prop, tier, seed, mod, m, wall, len(new_viol), dict(known_hit))

    for ln in lines:
        print(ln)
    if m["viol_mechs"]:
        print("violation mechanisms:", dict(m["viol_mechs"]))
    if replay_paths:
        for path, v in replay_paths:
            print(f"VIOLATION property={prop} replay={os.path.relpath(path, VERIF)}")
            print(f"  kind={v['kind']} mech={v['mech']}\n  {v['msg'][:1500]}")
        return 1
    if m["inconclusive"]:
        for r in m["inconclusive"]:
            print(f"INCONCLUSIVE property={prop}: {r}")
        return 2
    if replay:
        print(f"replay of {replay}: no violation reproduced")
        return 0
    print(
        f"HELD property={prop} tier={tier} seed={seed}: {m['evaluations']} cases, "
        f"{len(m['nontrivial'])} distinct non-trivial, {wall:.0f}s; " + summary_line(m)
    )
    return 0


def summary_line(m):
    c = m["counters"]
    keys = sorted(c, key=lambda k: -c[k])[:10]
    return ", ".join(f"{k}={c[k]}" for k in keys)


def write_evidence(prop, tier, seed, mod, m, wall, nviol, known_hit):
    cov = {
        "evaluations": int(m["evaluations"]),
        "distinct_nontrivial": len(m["nontrivial"]),
        "distinct_cases": len(m["distinct"]),
        "rule": getattr(mod, "RULE", ""),
        "samples": m["samples"][:4] or ["<none>"],
        "counters": dict(m["counters"]),
        "tables": {k: dict(sorted(v.items(), key=lambda kv: -kv[1])[:80]) for k, v in m["tables"].items()},
        "maxima": m["maxima"],
        "inconclusive": m["inconclusive"],
        "known_findings_witnessed": known_hit,
        "notes": m["notes"],
    }
    if getattr(mod, "EXHAUSTIVE", None) and m["counters"].get("exhaustive_box_completed"):
        cov["exhaustive"] = True
        cov["exhaustive_box"] = mod.EXHAUSTIVE
    ev = {
        "property_id": prop,
        "tier": tier,
        "seed": int(seed),
        "level": getattr(mod, "LEVEL", "exploration"),
        "coverage": cov,
        "assumptions": getattr(mod, "ASSUMPTIONS", []),
        "wall_s": round(wall, 2),
        "violations": int(nviol),
    }
    os.makedirs(os.path.join(OUT, "evidence"), exist_ok=True)
    jdump(ev, os.path.join(OUT, "evidence", f"{prop}.json"), indent=1)


def main():
    ap = argparse.ArgumentParser()
    ap.add_argument("prop")
    ap.add_argument("--tier", default=os.environ.get("VERIF_TIER", "quick"))
    ap.add_argument("--replay")
    ap.add_argument("--seed", type=int, default=int(os.environ.get("VERIF_SEED", "0")))
    a = ap.parse_args()
    sys.exit(run_check(a.prop.upper(), a.tier, a.seed, a.replay))


if __name__ == "__main__":
    main()
