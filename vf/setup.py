"""MANIFEST.setup_cmd: offline install of icontract/deal into the git-ignored .deps directory."""
from vf.common import ensure_deps

if __name__ == "__main__":
    ensure_deps()
    import icontract  # noqa: F401

    print("setup ok")
