"""Value oracles: comparison against the NumPy mirror, value fingerprints."""

from __future__ import annotations

import hashlib

import numpy as np


def _is_inexact(dt):
    return np.issubdtype(dt, np.inexact)


def tol_for(dtype, inexact_depth=0, mag=1.0, eps=0.0):
    """(rtol, atol) for comparing a dask result with the NumPy mirror.

    Exact dtypes (bool/int/uint) compare exactly.  Inexact dtypes compare
    bit-for-bit when no inexact operation was applied (`inexact_depth == 0`):
    leaves are dyadic rationals and exact ops on them are order-independent.
    """
    dt = np.dtype(dtype)
    if not _is_inexact(dt):
        return 0.0, 0.0
    if inexact_depth <= 0:
        return 0.0, 0.0
    eps = max(float(eps), float(np.finfo(dt).eps) if dt.kind in "fc" else 0.0)
    base = float(eps) * 4096.0 * (2.0 ** min(inexact_depth, 8))
    return base, base * max(1.0, float(mag))


def same(expected, got, inexact_depth=0, mag=1.0, check_dtype=True, eps=0.0):
    """Return None when `got` equals `expected`, else a short reason string."""
    exp_masked = isinstance(expected, np.ma.MaskedArray)
    got_masked = isinstance(got, np.ma.MaskedArray)
    if exp_masked or got_masked:
        if exp_masked != got_masked:
            return f"maskedness differs: expected masked={exp_masked} got masked={got_masked}"
        em, gm = np.ma.getmaskarray(expected), np.ma.getmaskarray(got)
        if em.shape != gm.shape:
            return f"shape {gm.shape} != {em.shape}"
        if not np.array_equal(em, gm):
            return "masks differ"
        e = np.where(em, 0, np.ma.getdata(expected))
        g = np.where(gm, 0, np.ma.getdata(got))
        return same(np.asarray(e), np.asarray(g), inexact_depth, mag, check_dtype, eps)
    e = np.asarray(expected)
    if not isinstance(got, (np.ndarray, np.generic)) and not np.isscalar(got):
        return f"result is {type(got).__name__}, not an array"
    g = np.asarray(got)
    if e.shape != g.shape:
        return f"shape {g.shape} != expected {e.shape}"
    if check_dtype and e.dtype != g.dtype and e.size:
        return f"dtype {g.dtype} != expected {e.dtype}"
    if e.dtype != g.dtype and not e.size:
        return None
    if e.size == 0:
        return None
    if e.dtype.kind in "OUSV" or g.dtype.kind in "OUSV":
        try:
            ok = bool(np.array_equal(e, g))
        except Exception:
            ok = e.tolist() == g.tolist()
        return None if ok else "values differ (object/str)"
    rtol, atol = tol_for(e.dtype, inexact_depth, mag, eps)
    if rtol == 0.0 and atol == 0.0:
        if _is_inexact(e.dtype):
            ok = np.array_equal(e, g, equal_nan=True)
        else:
            ok = np.array_equal(e, g)
    else:
        with np.errstate(all="ignore"):
            ok = bool(np.allclose(g, e, rtol=rtol, atol=atol, equal_nan=True))
    if ok:
        return None
    return describe_diff(e, g)


def describe_diff(e, g):
    try:
        with np.errstate(all="ignore"):
            if _is_inexact(e.dtype):
                bad = ~((e == g) | (np.isnan(e) & np.isnan(g)))
            else:
                bad = e != g
        idx = np.argwhere(bad)
        n = len(idx)
        first = tuple(int(i) for i in idx[0]) if n else ()
        ev = e[first] if n else None
        gv = g[first] if n else None
        return f"values differ at {n}/{e.size} positions; first at {first}: expected {ev!r} got {gv!r}"
    except Exception as ex:  # pragma: no cover
        return f"values differ ({ex})"


def fingerprint(v, _depth=0):
    """Layout-independent fingerprint of a task result (arrays by dtype/shape/bytes)."""
    if isinstance(v, np.ma.MaskedArray):
        return ("ma", fingerprint(np.ma.getdata(v)), fingerprint(np.ma.getmaskarray(v)))
    if isinstance(v, np.ndarray):
        if v.dtype.kind == "O":
            try:
                return ("ndO", v.shape, hashlib.blake2b(repr(v.tolist()).encode(), digest_size=8).hexdigest())
            except Exception:
                return ("ndO", v.shape, "?")
        a = np.ascontiguousarray(v)
        return ("nd", str(v.dtype), v.shape, hashlib.blake2b(a.tobytes(), digest_size=8).hexdigest())
    if isinstance(v, np.generic):
        return ("sc", str(v.dtype), v.tobytes().hex())
    if isinstance(v, (list, tuple)) and _depth < 6:
        return (type(v).__name__,) + tuple(fingerprint(x, _depth + 1) for x in v)
    if isinstance(v, dict) and _depth < 6:
        return ("dict",) + tuple((str(k), fingerprint(x, _depth + 1)) for k, x in sorted(v.items(), key=lambda kv: str(kv[0])))
    if isinstance(v, (int, float, complex, str, bytes, bool, type(None))):
        return ("py", type(v).__name__, repr(v))
    return ("obj", type(v).__name__)


def arrays_in(v, _depth=0):
    """Yield every ndarray reachable inside a task value."""
    if isinstance(v, np.ndarray):
        yield v
    elif isinstance(v, (list, tuple)) and _depth < 6:
        for x in v:
            yield from arrays_in(x, _depth + 1)
    elif isinstance(v, dict) and _depth < 6:
        for x in v.values():
            yield from arrays_in(x, _depth + 1)
