"""T - recording array-likes and block functions (event logs for offline checkers)."""

from __future__ import annotations

import threading
from numbers import Integral

import numpy as np

PHASE = {"now": "build"}  # flipped to "execute" by the harness around compute()


class Event:
    __slots__ = ("kind", "phase", "index", "size", "problem", "thread", "locked")

    def __init__(self, kind, phase, index, size, problem=None, locked=None):
        self.kind = kind
        self.phase = phase
        self.index = index
        self.size = size
        self.problem = problem
        self.thread = threading.get_ident()
        self.locked = locked

    def as_json(self):
        return {"kind": self.kind, "phase": self.phase, "index": enc(self.index), "size": self.size, "problem": self.problem, "locked": self.locked}


def enc(idx):
    out = []
    for e in idx if isinstance(idx, tuple) else (idx,):
        if isinstance(e, slice):
            out.append(["s", e.start, e.stop, e.step])
        elif e is None:
            out.append("N")
        elif e is Ellipsis:
            out.append("E")
        elif isinstance(e, (list, np.ndarray)):
            out.append(["l", np.asarray(e).tolist()])
        else:
            try:
                out.append(int(e))
            except Exception:
                out.append(repr(e))
    return out


class LazyHandle:
    """What a lazy store's __getitem__ returns: no I/O yet; np.asarray(handle) performs (and logs) the read."""

    def __init__(self, store, idx, out, problem):
        self._store, self._idx, self._out, self._problem = store, idx, out, problem
        self.shape = out.shape
        self.dtype = out.dtype
        self.ndim = out.ndim

    def __array__(self, dtype=None, copy=None):
        out = self._store._log_read(self._idx, self._out, self._problem)
        out = np.array(out)
        return out.astype(dtype) if dtype is not None else out


class RecStore:
    """A non-NumPy array-like source that bounds-checks and logs every read.

    NumPy would silently clip an out-of-range slice; a real chunked store may not.
    """

    def __init__(self, data, chunks=None, shards=None, lock=None, allow_step=False, allow_fancy=False, name="store", lazy=False):
        self.lazy = lazy
        self._data = np.asarray(data)
        self.shape = self._data.shape
        self.dtype = self._data.dtype
        self.ndim = self._data.ndim
        if chunks is not None:
            self.chunks = tuple(chunks)
        if shards is not None:
            self.shards = tuple(shards)
        self.events = []
        self._loglock = threading.Lock()
        self._guard = lock  # the lock the user passes to from_array(lock=...)
        self.allow_step = allow_step
        self.allow_fancy = allow_fancy
        self.name = name
        self.writes = 0

    def __len__(self):
        if not self.shape:
            raise TypeError("len() of unsized object")
        return self.shape[0]

    def _check(self, idx):
        if not isinstance(idx, tuple):
            idx = (idx,)
        if any(e is Ellipsis for e in idx):
            return None
        if len([e for e in idx if e is not None]) > self.ndim:
            return f"too many indices: {idx}"
        ax = 0
        for e in idx:
            if e is None:
                continue
            n = self.shape[ax]
            if isinstance(e, slice):
                start, stop, step = e.start, e.stop, e.step
                if step not in (None, 1) and not self.allow_step:
                    return f"axis {ax}: step {step} requested from a store that only supports unit steps"
                if step is not None and step < 0:
                    return f"axis {ax}: negative step {step}"
                if start is not None and not (0 <= start <= n):
                    return f"axis {ax}: start {start} outside [0, {n}]"
                if stop is not None and not (0 <= stop <= n):
                    return f"axis {ax}: stop {stop} outside [0, {n}]"
                if start is not None and stop is not None and start > stop:
                    return f"axis {ax}: start {start} > stop {stop}"
            elif isinstance(e, (Integral, np.integer)):
                if not (-n <= e < n):
                    return f"axis {ax}: integer {e} out of range for length {n}"
            elif isinstance(e, (list, np.ndarray)):
                a = np.asarray(e)
                if not self.allow_fancy:
                    return f"axis {ax}: fancy index requested from a store created with fancy=False semantics"
                if a.dtype != bool and a.size and ((a < -n).any() or (a >= n).any()):
                    return f"axis {ax}: fancy index out of range"
            ax += 1
        return None

    def __getitem__(self, idx):
        problem = self._check(idx)
        out = self._data[idx]
        if self.lazy:
            # the bytes are fetched when the handle is converted, the way lazily indexed backend adapters behave:
            # that is the moment the read is logged (with the lock state of that moment)
            return LazyHandle(self, idx, out, problem)
        return self._log_read(idx, out, problem)

    def _log_read(self, idx, out, problem):
        locked = None
        if self._guard is not None:
            try:
                locked = self._guard.locked()
            except Exception:
                locked = None
        with self._loglock:
            self.events.append(Event("read", PHASE["now"], idx, int(np.size(out)), problem, locked))
        return out

    def __setitem__(self, idx, value):
        with self._loglock:
            self.writes += 1
            self.events.append(Event("write", PHASE["now"], idx, int(np.size(self._data[idx])), "write to a source"))
        self._data[idx] = value

    # convenience
    def reads(self, phase=None):
        return [e for e in self.events if e.kind == "read" and (phase is None or e.phase == phase)]

    def problems(self):
        return [e for e in self.events if e.problem]

    def nonempty_build_reads(self):
        return [e for e in self.events if e.kind == "read" and e.phase == "build" and e.size > 0]


class Wrapper:
    """Adapter that hides the store behind `.array` (like xarray's lazy indexing adapters)."""

    def __init__(self, inner, attr="array"):
        setattr(self, attr, inner)
        self._inner = inner
        self.shape = inner.shape
        self.dtype = inner.dtype
        self.ndim = inner.ndim

    def __getitem__(self, idx):
        return self._inner[idx]

    def __len__(self):
        return len(self._inner)


class RecTarget:
    """A store target counting writes per cell."""

    SENTINEL = -777

    def __init__(self, shape, dtype, lock=None):
        self.shape = tuple(shape)
        self.dtype = np.dtype(dtype)
        self.ndim = len(self.shape)
        self.data = np.full(self.shape, self.SENTINEL, dtype=self.dtype if self.dtype.kind in "if" else "f8")
        self.count = np.zeros(self.shape, dtype=np.int64)
        self.events = []
        self._loglock = threading.Lock()
        self._guard = lock

    def __setitem__(self, idx, value):
        problem = None
        locked = None
        if self._guard is not None:
            try:
                locked = self._guard.locked()
            except Exception:
                locked = None
        if not isinstance(idx, tuple):
            idx = (idx,)
        ax = 0
        for e in idx:
            if isinstance(e, slice):
                n = self.shape[ax]
                for b in (e.start, e.stop):
                    if b is not None and not (0 <= b <= n):
                        problem = f"axis {ax}: write bound {b} outside [0, {n}]"
                if e.step not in (None, 1):
                    problem = problem or f"axis {ax}: write with step {e.step}"
            elif isinstance(e, (Integral, np.integer)):
                if not (0 <= e < self.shape[ax]):
                    problem = f"axis {ax}: write index {e} out of range"
            ax += 1
        with self._loglock:
            self.events.append(Event("write", PHASE["now"], idx, int(np.size(value)), problem, locked))
            self.count[idx] += 1
            self.data[idx] = value

    def __getitem__(self, idx):
        with self._loglock:
            self.events.append(Event("read", PHASE["now"], idx if isinstance(idx, tuple) else (idx,), 0))
        return self.data[idx]


class RecNdTarget(np.ndarray):
    """A real ndarray target (dask tokenizes it by content, forces local schedulers for it, ...) that still counts
    writes per cell.  Two of these with the same shape start with equal content."""

    def __new__(cls, shape, dtype="f8", lock=None):
        obj = np.full(tuple(shape), RecTarget.SENTINEL, dtype="f8").view(cls)
        obj.count = np.zeros(tuple(shape), dtype=np.int64)
        obj.events = []
        obj._loglock = threading.Lock()
        obj._guard = lock
        return obj

    def __array_finalize__(self, obj):
        if obj is not None and not hasattr(self, "events"):
            self.count = getattr(obj, "count", None)
            self.events = getattr(obj, "events", [])
            self._loglock = getattr(obj, "_loglock", threading.Lock())
            self._guard = getattr(obj, "_guard", None)

    @property
    def data(self):
        return self.view(np.ndarray)

    def __setitem__(self, idx, value):
        locked = None
        if self._guard is not None:
            try:
                locked = self._guard.locked()
            except Exception:
                locked = None
        if not isinstance(idx, tuple):
            idx = (idx,)
        with self._loglock:
            self.events.append(Event("write", PHASE["now"], idx, int(np.size(value)), None, locked))
            if self.count is not None:
                self.count[idx] += 1
        np.ndarray.__setitem__(self, idx, value)


class BlockFnLog:
    def __init__(self):
        self.calls = []
        self.lock = threading.Lock()

    def clear(self):
        with self.lock:
            self.calls = []


BLOCKLOG = BlockFnLog()


def rec_block_info_fn(x, *others, block_info=None, block_id=None, tag=None):
    """Records its invocation; returns x + f(array-location) so a mis-located block changes values."""
    info = None
    if block_info is not None:
        info = {}
        for k, v in block_info.items():
            if v is None:
                info[str(k)] = None
                continue
            info[str(k)] = {
                kk: (list(map(list, vv)) if kk == "array-location" else (list(vv) if isinstance(vv, (tuple, list)) else (str(vv) if kk == "dtype" else vv)))
                for kk, vv in v.items()
            }
    with BLOCKLOG.lock:
        BLOCKLOG.calls.append(
            {
                "phase": PHASE["now"],
                "tag": tag,
                "shape": list(np.shape(x)),
                "other_shapes": [list(np.shape(o)) for o in others],
                "size": int(np.size(x)),
                "block_info": info,
                "block_id": list(block_id) if block_id is not None else None,
                "maxval": float(np.max(x)) if np.size(x) and np.asarray(x).dtype.kind in "fiu" else None,
            }
        )
    out = np.asarray(x)
    for o in others:
        out = out + o
    if block_info is not None and block_info.get(0) is not None and np.size(x):
        loc = block_info[0]["array-location"]
        off = sum((i + 1) * lo for i, (lo, hi) in enumerate(loc))
        out = out + off
    return out


def rec_plain_fn(x, tag=None):
    with BLOCKLOG.lock:
        BLOCKLOG.calls.append({"phase": PHASE["now"], "tag": tag, "shape": list(np.shape(x)), "size": int(np.size(x)), "block_info": None, "block_id": None, "maxval": float(np.max(x)) if np.size(x) and np.asarray(x).dtype.kind in "fiu" else None})
    return x + 1


def rec_declared_fn(x, tag=None):
    """Only ever used with dtype= (and meta=) declared: every non-empty call before execution is unwarranted, whether or
    not the keyword arguments survived a rewrite."""
    return rec_plain_fn(x, tag="declared")


class phase:
    def __init__(self, name):
        self.name = name

    def __enter__(self):
        self.old = PHASE["now"]
        PHASE["now"] = self.name

    def __exit__(self, *a):
        PHASE["now"] = self.old
        return False
