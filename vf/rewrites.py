"""R - rewrite recorder: keeps the before/after expression objects of every fired rewrite.

Same patch points as the repository's own `trace_rewrites` (`_simplify_down`,
`_simplify_up`, `_lower` on every ArrayExpr subclass) but the hooks stay installed and
record only while a recording is active and not suspended (oracle evaluations suspend it).
A logical step cap turns a non-terminating rewrite loop into a StepCapExceeded raised
from inside the hook (the firing sequence is the witness).
"""

from __future__ import annotations

import functools
from collections import Counter

import numpy as np

HOOKS = {"_simplify_down": "simplify", "_simplify_up": "simplify", "_lower": "lower"}


class StepCapExceeded(Exception):
    def __init__(self, n, tail):
        super().__init__(f"{n} rewrite firings; tail: {tail}")
        self.tail = tail


class Record:
    __slots__ = ("phase", "rule", "hook", "before", "after")

    def __init__(self, phase, rule, hook, before, after):
        self.phase = phase
        self.rule = rule
        self.hook = hook
        self.before = before
        self.after = after

    @property
    def site(self):
        return f"{self.rule}: {type(self.before).__name__} -> {type(self.after).__name__}"


class Recorder:
    def __init__(self):
        self.records = []
        self.active = False
        self.suspended = 0
        self.firings = 0
        self.cap = None
        self.calls = Counter()

    # -- installation ---------------------------------------------------------
    def install(self):
        from dask_array._expr import ArrayExpr

        seen = set()
        stack = [ArrayExpr]
        while stack:
            cls = stack.pop()
            if cls in seen:
                continue
            seen.add(cls)
            stack.extend(cls.__subclasses__())
            for hook, phase in HOOKS.items():
                if hook in cls.__dict__:
                    orig = cls.__dict__[hook]
                    if getattr(orig, "__vf_wrapped__", False):
                        continue
                    setattr(cls, hook, self._wrap(orig, hook, phase))
        return len(seen)

    def _wrap(self, orig, hook, phase):
        rec = self

        @functools.wraps(orig)
        def wrapper(self, *args, **kwargs):
            out = orig(self, *args, **kwargs)
            if not rec.active or rec.suspended or out is None:
                return out
            before = args[0] if hook == "_simplify_up" else self
            after_name = getattr(out, "_name", None)
            if after_name is None or after_name == before._name:
                return out
            rec.firings += 1
            rec.records.append(Record(phase, f"{type(self).__name__}.{hook}", hook, before, out))
            if rec.cap is not None and rec.firings > rec.cap:
                tail = [(r.rule, r.before._name[:24]) for r in rec.records[-12:]]
                rec.active = False
                raise StepCapExceeded(rec.firings, tail)
            return out

        wrapper.__vf_wrapped__ = True
        return wrapper

    # -- recording ---------------------------------------------------------------
    def start(self, cap=None):
        self.install()
        self.records = []
        self.firings = 0
        self.cap = cap
        self.active = True
        self.suspended = 0

    def stop(self):
        self.active = False
        recs, self.records = self.records, []
        return recs

    class _Suspend:
        def __init__(self, rec):
            self.rec = rec

        def __enter__(self):
            self.rec.suspended += 1

        def __exit__(self, *a):
            self.rec.suspended -= 1
            return False

    def suspend(self):
        return Recorder._Suspend(self)


REC = Recorder()


# --------------------------------------------------------------------------
# expression evaluation (private lowering cache, instrumented scheduler)
# --------------------------------------------------------------------------


def eval_expr(expr, simplify=False, fuse=False, order="lifo", rng=None):
    """Lower `expr` with a private cache and execute its graph. Returns (value, lowered expr)."""
    from dask._expr import Expr
    from dask._task_spec import convert_legacy_graph

    from vf import sched

    with REC.suspend():
        e = expr
        if simplify:
            e = e.simplify()
        e = e.lower_completely()
        if fuse:
            e = e.fuse()
        dsk = convert_legacy_graph(dict(Expr.__dask_graph__(e)))
        run = sched.execute(dsk, order=order, rng=rng, check_mutation=False)
        keys = e.__dask_keys__()
        return sched.assemble(keys, run.values), e


LI_CLASSES = {
    # Expression classes whose value is a function of their operands' *values* and parameters only
    # (array-level semantics).  Generic Blockwise (per-block partials with adjust_chunks, user
    # kernels), PartialReduce, ArgChunk, OverlapInternal, Blocks, ChunksOverride, Random, linalg
    # internals etc. are NOT here: their shape/values legitimately depend on the block layout.
    "Elemwise", "BroadcastTo", "SlidingWindowView", "MapOverlap", "Rechunk", "TasksRechunk", "Shuffle",
    "Arange", "Linspace", "Eye", "Ones", "Zeros", "Full", "FromArray", "FromGraph", "Diag1D", "Diag2DSimple",
    "Diagonal", "ExpandDims", "Reshape", "Squeeze", "Transpose", "All", "Any", "Max", "Mean", "Min", "NanMax",
    "NanMean", "NanMin", "NanProd", "NanSum", "NanVar", "Prod", "Sum", "Var", "CumReduction",
    "CumReductionBlelloch", "SlidingWindowReduction", "MovingWindowReduction", "Coarsen", "Slice",
    "SliceSlicesIntegers", "TakeUnknownOneChunk", "BooleanIndexFlattened", "SetItem", "VIndexArray",
    "Concatenate", "Stack", "RootAlias", "ChunksFreeze",
}
LAYOUT_INSENSITIVE = LI_CLASSES


def is_li(expr, reg, memo=None):
    """Layout-insensitive: registered as a user-level array, or an LI class over LI operands."""
    from dask_array._expr import ArrayExpr

    memo = {} if memo is None else memo
    name = expr._name
    if name in memo:
        return memo[name]
    if name in reg:
        memo[name] = True
        return True
    ok = type(expr).__name__ in LI_CLASSES
    if ok:
        memo[name] = True  # cycle guard (trees are DAGs)
        for d in expr.dependencies():
            if isinstance(d, ArrayExpr) and not is_li(d, reg, memo):
                ok = False
                break
    memo[name] = ok
    return ok


def one_block_value(before):
    """Value of `before` recomputed from single-chunk copies of its array operands.

    With one block per operand there is nothing to unify, plan or tree-reduce, so the
    lowering rules under test degenerate; the result is an independent value for
    layout-insensitive node classes.  Returns (value, None) or (None, reason)."""
    import dask_array as da
    from dask_array._expr import ArrayExpr

    cls = type(before)
    if cls.__name__ not in LAYOUT_INSENSITIVE:
        return None, f"class {cls.__name__} is layout-sensitive"
    ops = []
    try:
        with REC.suspend():
            for op in before.operands:
                if isinstance(op, ArrayExpr):
                    val, _ = eval_expr(op)
                    if isinstance(val, np.ma.MaskedArray) or not isinstance(val, np.ndarray):
                        val = np.asarray(val)
                    ops.append(da.from_array(val, chunks=val.shape if val.ndim else ()).expr)
                else:
                    ops.append(op)
            rebuilt = cls(*ops)
            val, _ = eval_expr(rebuilt)
            return val, None
    except Exception as e:
        return None, f"rebuild failed: {type(e).__name__}: {str(e)[:120]}"


def is_reduction(expr):
    from dask_array.reductions._reduction import Reduction

    try:
        return isinstance(expr, Reduction)
    except Exception:
        return False


def fused_nodes(expr):
    from dask_array._blockwise import FusedBlockwise

    return [n for n in expr.walk() if isinstance(n, FusedBlockwise)]


def fused_external_deps(fused):
    """For each output block: (external keys of the fused task, external keys reached through
    the members' own un-fused `_layer()` tasks)."""
    from itertools import product

    from dask._task_spec import convert_legacy_graph

    members = {}
    with REC.suspend():
        for m in fused.exprs:
            layer = convert_legacy_graph(dict(m._layer()))
            members.update(layer)
        flayer = convert_legacy_graph(dict(fused._layer()))
    root = fused.exprs[0]
    out = []
    for block in product(*[range(n) for n in fused.numblocks]):
        fkey = (fused._name, *block)
        fdeps = set(flayer[fkey].dependencies)
        # walk the un-fused member graph
        ext = set()
        stack = [(root._name, *block)]
        seen = set()
        while stack:
            k = stack.pop()
            if k in seen:
                continue
            seen.add(k)
            node = members.get(k)
            if node is None:
                ext.add(k)
                continue
            stack.extend(node.dependencies)
        out.append((block, fdeps, ext))
    return out
