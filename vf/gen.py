"""G - seeded program generator with a NumPy mirror for every variable.

A program is a JSON-serializable list of steps ``{"op", "in": [var ids], "p": params}``.
`Prog.grow` appends random steps; every step is executed on the NumPy mirror first
(op not applicable if NumPy raises) and then built on the dask_array side (a raise
while *building* is a refusal: tallied, step dropped).  `Prog.replay(steps)` rebuilds
a recorded program exactly.
"""

from __future__ import annotations

import itertools
import math
import operator
from collections import Counter

import numpy as np

from vf import kernels as K

_da = None


def da():
    global _da
    if _da is None:
        import dask_array

        _da = dask_array
    return _da


# --------------------------------------------------------------------------
# index encoding (JSON-able)
# --------------------------------------------------------------------------


def enc_index(idx):
    out = []
    for e in idx:
        if e is None:
            out.append("N")
        elif e is Ellipsis:
            out.append("E")
        elif isinstance(e, slice):
            out.append(["s", e.start, e.stop, e.step])
        elif isinstance(e, (int, np.integer)):
            out.append(int(e))
        elif isinstance(e, (list, np.ndarray)):
            a = np.asarray(e)
            if a.dtype == bool:
                out.append(["b", a.tolist()])
            else:
                out.append(["l", a.tolist()])
        else:
            raise TypeError(e)
    return out


def dec_index(enc, as_array=False):
    out = []
    for e in enc:
        if e == "N":
            out.append(None)
        elif e == "E":
            out.append(Ellipsis)
        elif isinstance(e, list) and e and e[0] == "s":
            out.append(slice(e[1], e[2], e[3]))
        elif isinstance(e, list) and e and e[0] == "b":
            out.append(np.asarray(e[1], dtype=bool))
        elif isinstance(e, list) and e and e[0] == "l":
            a = np.asarray(e[1], dtype=np.intp) if as_array else list(e[1])
            if not as_array and isinstance(e[1], list) and e[1] and isinstance(e[1][0], list):
                a = np.asarray(e[1], dtype=np.intp)
            out.append(a)
        else:
            out.append(int(e))
    return tuple(out)


# --------------------------------------------------------------------------
# variables
# --------------------------------------------------------------------------


class Var:
    __slots__ = ("id", "np", "da", "inx", "mag", "flags", "depth", "eps")

    def __init__(self, id, npv, dav, inx=0, mag=1.0, flags=(), depth=0, eps=0.0):
        self.eps = eps
        self.id = id
        self.np = npv
        self.da = dav
        self.inx = inx
        self.mag = mag
        self.flags = set(flags)
        self.depth = depth

    @property
    def shape(self):
        return self.np.shape

    @property
    def ndim(self):
        return self.np.ndim

    @property
    def dtype(self):
        return self.np.dtype

    @property
    def kind(self):
        return self.np.dtype.kind


def absmax(a):
    a = np.asarray(a)
    if a.size == 0 or a.dtype.kind in "bOUSV":
        return 1.0
    with np.errstate(all="ignore"):
        m = np.abs(np.where(np.isfinite(a), a, 0)) if a.dtype.kind in "fc" else np.abs(a.astype(np.float64))
        v = float(m.max()) if m.size else 1.0
    if not math.isfinite(v):
        v = 1e300
    return max(1.0, v)


def dyadic(a, qbits=None, mbits=None):
    """True when sums of the values of `a` are exact in any order."""
    a = np.asarray(a)
    k = a.dtype.kind
    if k == "b":
        return True
    if k in "iu":
        # float64 accumulation (mean, float contractions) is exact only below 2**53
        return a.size == 0 or float(np.abs(a.astype(np.float64)).sum()) < 2.0**52
    if k not in "fc":
        return False
    if k == "c":
        return dyadic(a.real, qbits, mbits) and dyadic(a.imag, qbits, mbits)
    single = a.dtype.itemsize <= 4
    if qbits is None:
        qbits = 4 if single else 20
    if mbits is None:
        mbits = 8 if single else 20
    f = a[np.isfinite(a)]
    if f.size == 0:
        return True
    if np.abs(f).max() > 2.0**mbits:
        return False
    s = f.astype(np.float64) * (2.0**qbits)
    return bool(np.all(s == np.round(s)))


# --------------------------------------------------------------------------
# chunk helpers
# --------------------------------------------------------------------------


def rand_composition(rng, n, style=None):
    """A random chunking of an axis of length n (tuple of positive ints; (0,) for n=0)."""
    if n == 0:
        return (0,)
    style = style or rng.choice(["whole", "ones", "uniform", "uniform", "random", "random", "random", "two"])
    if style == "whole" or n == 1:
        return (n,)
    if style == "ones":
        return (1,) * n
    if style == "uniform":
        c = rng.randint(1, max(1, n - 1))
        q, r = divmod(n, c)
        return (c,) * q + ((r,) if r else ())
    if style == "two":
        c = rng.randint(1, n - 1)
        return (c, n - c)
    out = []
    left = n
    while left > 0:
        c = rng.randint(1, max(1, min(left, max(2, n // 2))))
        out.append(c)
        left -= c
    return tuple(out)


def rand_chunks(rng, shape, style=None):
    return tuple(rand_composition(rng, n, style) for n in shape)


def rand_shape(rng, max_ndim=3, max_extent=7, allow_zero=True, min_ndim=0, max_size=20000):
    nd = rng.choice([1, 1, 2, 2, 2, 3, 3, 0, 4][: 9 if max_ndim >= 4 else 8])
    nd = max(min_ndim, min(nd, max_ndim))
    while True:
        shp = []
        for _ in range(nd):
            r = rng.random()
            if allow_zero and r < 0.04:
                shp.append(0)
            elif r < 0.12:
                shp.append(1)
            else:
                shp.append(rng.randint(2, max_extent))
        if math.prod(shp) <= max_size:
            return tuple(shp)


DTYPES = ["f8", "f8", "f8", "i8", "i8", "i4", "f4", "bool", "u1", "i1", "c16"]


def leaf_values(shape, dtype, vals, seed):
    """Deterministic leaf data: pairwise-distinct (where the dtype allows) dyadic values."""
    r = np.random.default_rng(seed)
    size = int(math.prod(shape))
    dt = np.dtype(dtype)
    perm = r.permutation(size).astype(np.int64)
    if vals == "ties":
        perm = perm // 3
    if dt.kind == "b":
        a = (perm % 3) == 0
    elif dt.kind == "u":
        a = (perm % 251).astype(dt)
    elif dt.kind == "i":
        lim = np.iinfo(dt).max
        a = ((perm - size // 3) % (2 * min(lim, 10**6) + 1) - min(lim, 10**6) if size > lim else perm - size // 3).astype(dt)
    elif dt.kind == "f":
        a = ((perm - size // 2) * 0.5).astype(dt)
        if vals == "nan" and size:
            m = r.random(size) < 0.25
            a = a.copy()
            a[m] = np.nan
    elif dt.kind == "c":
        perm2 = r.permutation(size).astype(np.int64)
        a = ((perm - size // 2) * 0.5 + 1j * (perm2 - size // 3) * 0.25).astype(dt)
    else:
        raise ValueError(dtype)
    return a.reshape(shape)


# --------------------------------------------------------------------------
# op registry
# --------------------------------------------------------------------------

OPS = {}


class Op:
    def __init__(self, name, arity, gen, npf, daf, tags=(), w=1.0, inexact=None, unknown_ok=False):
        self.name = name
        self.arity = arity
        self.gen = gen
        self.npf = npf
        self.daf = daf
        self.tags = set(tags.split()) if isinstance(tags, str) else set(tags)
        self.w = w
        self.inexact = inexact  # fn(p, ins, out_np) -> int increment of inexact depth
        self.unknown_ok = unknown_ok


def defop(name, arity, gen, npf, daf, tags="", w=1.0, inexact=None, unknown_ok=False):
    OPS[name] = Op(name, arity, gen, npf, daf, tags, w, inexact, unknown_ok)


class Skip(Exception):
    """Raised by an op generator when it does not apply to the chosen inputs."""


def need(cond):
    if not cond:
        raise Skip()


def zero_sign_safe(v):
    """The sign of a floating zero is order-dependent (-0.0 + 0.0 == 0.0, a sum that starts from
    +0.0 loses a -0.0) and `same` treats the two zeros as equal; ops that are discontinuous in that
    sign (x / 0, arctan2, copysign, signbit) only take inputs that cannot hold a floating zero.
    Integer inputs have one zero and stay eligible, so division by zero is still exercised."""
    a = v.np
    return a.dtype.kind not in "fc" or a.size == 0 or not bool(np.any(a == 0))


def norm_axis(ax, nd):
    return ax % nd if nd else 0


def rand_axis(g, nd, neg=True):
    need(nd > 0)
    ax = g.rng.randrange(nd)
    if neg and g.rng.random() < 0.3:
        ax -= nd
    return ax


def rand_axes(g, nd):
    """None, int, or tuple of axes."""
    r = g.rng.random()
    if nd == 0 or r < 0.3:
        return None
    if r < 0.7 or nd == 1:
        return rand_axis(g, nd)
    k = g.rng.randint(1, nd)
    axes = g.rng.sample(range(nd), k)
    if g.rng.random() < 0.3:
        axes = [a - nd for a in axes]
    return axes


def ax_arg(a):
    return tuple(a) if isinstance(a, list) else a


# ---- leaves --------------------------------------------------------------


def _leaf_from_array(g, ins):
    shape = g.new_shape()
    dtype = g.rng.choice(g.dtypes)
    vals = "perm"
    if np.dtype(dtype).kind == "f" and g.rng.random() < g.nan_prob:
        vals = "nan"
    elif g.rng.random() < 0.15:
        vals = "ties"
    p = {"shape": list(shape), "dtype": dtype, "chunks": [list(c) for c in rand_chunks(g.rng, shape)], "vals": vals, "seed": g.rng.randrange(10**6)}
    # a few leaves carry lock= (decided from the seed so the random stream of older cases is unchanged): a named
    # SerializableLock is a value (equal names are one lock), False means no lock
    if p["seed"] % 16 == 0:
        p["lock"] = False if p["seed"] % 32 == 0 else f"verif-lock-{p['seed'] % 3}"
    elif p["seed"] % 8 == 3:
        # the user hands over a read-only view of a buffer they can still write to
        p["ro_view"] = True
    elif p["seed"] % 8 == 5:
        # chunks="auto": resolved against array.chunk-size when the array is built (the recorded chunks are ignored)
        p["auto"] = True
    return p


def _leaf_np(p):
    return leaf_values(tuple(p["shape"]), p["dtype"], p["vals"], p["seed"])


SRC_LOG = None  # set to a list by checks that audit the user's source arrays
RO_BASES = None  # set to a list by checks that later edit the writable bases of read-only views handed to from_array


def edit_ro_bases():
    """The user edits, in place, every buffer whose read-only view was handed to from_array. Returns how many."""
    n = 0
    for base in RO_BASES or []:
        if base.size == 0:
            continue
        if base.dtype.kind == "b":
            np.logical_not(base, out=base)
        elif base.dtype.kind in "iufc":
            base += 3
        else:
            continue
        n += 1
    if RO_BASES is not None:
        del RO_BASES[:]
    return n


def _leaf_da(p):
    a = _leaf_np(p)
    if SRC_LOG is not None:
        SRC_LOG.append((a, a.copy()))
    kw = {}
    if p.get("ro_view"):
        base = a
        if RO_BASES is not None:
            RO_BASES.append(base)
        a = base.view()
        a.flags.writeable = False
    if p.get("lock") is not None:
        from dask.utils import SerializableLock

        kw["lock"] = SerializableLock(p["lock"]) if p["lock"] else False
    return da().from_array(a, chunks="auto" if p.get("auto") else tuple(tuple(c) for c in p["chunks"]), **kw)


defop("from_array", 0, _leaf_from_array, _leaf_np, _leaf_da, "leaf", w=0)


def _g_arange(g, ins):
    n = g.rng.randint(0, g.max_extent * 2)
    start = g.rng.randint(-3, 3)
    step = g.rng.choice([1, 1, 2, 3, -1, -2])
    stop = start + step * n
    dtype = g.rng.choice(["i8", "f8", "i4", None])
    m = len(range(start, stop, step))
    return {"start": start, "stop": stop, "step": step, "chunks": list(rand_composition(g.rng, m)), "dtype": dtype}


defop(
    "arange",
    0,
    _g_arange,
    lambda p: np.arange(p["start"], p["stop"], p["step"], dtype=p["dtype"]),
    lambda p: da().arange(p["start"], p["stop"], p["step"], chunks=(tuple(p["chunks"]),), dtype=p["dtype"]),
    "leaf creation",
    w=0,
)


def _g_fill(g, ins):
    shape = g.new_shape()
    return {
        "fn": g.rng.choice(["ones", "zeros", "full"]),
        "shape": list(shape),
        "chunks": [list(c) for c in rand_chunks(g.rng, shape)],
        "dtype": g.rng.choice(["f8", "i8", "bool", "f4"]),
        "fill": g.rng.choice([2, -3, 7]),
        "named": g.rng.random() < 0.25,
    }


def _fill_np(p):
    if p["fn"] == "full":
        return np.full(tuple(p["shape"]), p["fill"], dtype=p["dtype"])
    return getattr(np, p["fn"])(tuple(p["shape"]), dtype=p["dtype"])


def _fill_da(p):
    ch = tuple(tuple(c) for c in p["chunks"])
    kw = {}
    if p.get("named"):
        # a user-chosen name: one name per distinct array (same parameters -> same array)
        kw["name"] = "userfill-" + "-".join(str(x) for x in (p["fn"], p["shape"], p["chunks"], p["dtype"], p["fill"] if p["fn"] == "full" else "")).replace(" ", "")
    if p["fn"] == "full":
        return da().full(tuple(p["shape"]), p["fill"], dtype=p["dtype"], chunks=ch, **kw)
    return getattr(da(), p["fn"])(tuple(p["shape"]), dtype=p["dtype"], chunks=ch, **kw)


defop("fill", 0, _g_fill, _fill_np, _fill_da, "leaf creation", w=0)


def _g_linspace(g, ins):
    num = g.rng.randint(1, g.max_extent * 2)
    return {"start": g.rng.randint(-4, 0), "stop": g.rng.randint(1, 8), "num": num, "endpoint": g.rng.random() < 0.7, "chunks": g.rng.randint(1, num)}


defop(
    "linspace",
    0,
    _g_linspace,
    lambda p: np.linspace(p["start"], p["stop"], p["num"], endpoint=p["endpoint"]),
    lambda p: da().linspace(p["start"], p["stop"], p["num"], endpoint=p["endpoint"], chunks=p["chunks"]),
    "leaf creation",
    w=0,
    inexact=lambda p, ins, out: 1,
)


def _g_eye(g, ins):
    n = g.rng.randint(1, g.max_extent)
    m = g.rng.choice([None, g.rng.randint(1, g.max_extent)])
    return {"N": n, "M": m, "k": g.rng.randint(-2, 2), "chunks": g.rng.randint(1, n), "dtype": g.rng.choice(["f8", "i8"])}


defop(
    "eye",
    0,
    _g_eye,
    lambda p: np.eye(p["N"], p["M"], p["k"], dtype=p["dtype"]),
    lambda p: da().eye(p["N"], chunks=p["chunks"], M=p["M"], k=p["k"], dtype=p["dtype"]),
    "leaf creation",
    w=0,
)


# ---- seeded random arrays (C07 / C23): the mirror is the array's own first realization ----------

RANDOM_GENS = ["default_rng", "default_rng", "RandomState", "MT19937", "Philox"]
RANDOM_DISTS = {
    # name: (needs Generator?, arg generator)
    "normal": lambda r: [r.choice([0, -2, 3.5]), r.choice([1, 0.5, 2])],
    "uniform": lambda r: [r.choice([0, -1]), r.choice([1, 4])],
    "standard_normal": lambda r: [],
    "poisson": lambda r: [r.choice([1.5, 4, 20])],
    "binomial": lambda r: [r.choice([5, 12]), r.choice([0.25, 0.5])],
    "exponential": lambda r: [r.choice([1.0, 2.5])],
    "integers": lambda r: [r.choice([0, -5]), r.choice([7, 100])],
    "random": lambda r: [],
    "gamma": lambda r: [r.choice([1.0, 2.0]), r.choice([1.0, 0.5])],
}


def _g_random(g, ins):
    rng = g.rng
    shape = rand_shape(rng, min(g.max_ndim, 3), g.max_extent, allow_zero=False, min_ndim=1, max_size=g.max_size)
    dist = rng.choice(list(RANDOM_DISTS))
    gen = rng.choice(RANDOM_GENS)
    args = RANDOM_DISTS[dist](rng)
    arr_param = None
    if dist in ("normal", "uniform", "poisson") and rng.random() < 0.35:
        # array-valued first parameter, broadcast along the last axis; as NumPy or as a dask array
        arr_param = {"kind": rng.choice(["numpy", "dask"]), "n": shape[-1], "chunks": list(rand_composition(rng, shape[-1]))}
    before = []
    for _ in range(rng.choice([0, 0, 1, 2])):
        before.append({"dist": rng.choice(["normal", "uniform", "standard_normal"]), "shape": [rng.randint(1, 5)], "chunks": None})
    return {"gen": gen, "seed": rng.randrange(10**6), "dist": dist, "args": args, "shape": list(shape), "chunks": [list(c) for c in rand_chunks(rng, shape)], "arr_param": arr_param, "before": before}


def _rand_generator(p):
    import numpy as _np

    R = da().random
    if p["gen"] == "default_rng":
        return R.default_rng(p["seed"])
    if p["gen"] == "RandomState":
        return R.RandomState(p["seed"])
    bitgen = getattr(_np.random, p["gen"])(p["seed"])
    return R.default_rng(bitgen)


def _rand_draw(gen, dist, args, shape, chunks, is_rs):
    name = dist
    if is_rs:
        name = {"integers": "randint", "random": "random_sample"}.get(dist, dist)
    fn = getattr(gen, name)
    kw = {"size": tuple(shape)}
    if chunks is not None:
        kw["chunks"] = tuple(tuple(c) for c in chunks)
    return fn(*args, **kw)


RAND_GENS = None  # set to a list by checks that go on drawing from the generators of random leaves


def _rand_da(p):
    gen = _rand_generator(p)
    is_rs = p["gen"] == "RandomState"
    if RAND_GENS is not None:
        RAND_GENS.append((gen, is_rs))
    for b in p.get("before", []):
        _rand_draw(gen, b["dist"], RANDOM_DISTS[b["dist"]](__import__("random").Random(0)), b["shape"], b["chunks"], is_rs)
    args = list(p["args"])
    ap = p.get("arr_param")
    if ap:
        base = np.arange(ap["n"], dtype="f8") * 0.5 + (1.0 if p["dist"] == "poisson" else 0.0)
        if p["dist"] == "uniform":
            base = base - ap["n"]  # low < high
        args[0] = base if ap["kind"] == "numpy" else da().from_array(base, chunks=(tuple(ap["chunks"]),))
    return _rand_draw(gen, p["dist"], args, p["shape"], p["chunks"], is_rs)


def _rand_np(p):
    # NumPy cannot predict a dask random stream: the mirror is the array's own realization, taken from an
    # independent build of the same spec (so "rebuilding with the same seed gives the same values" is part of what is checked)
    import dask

    with dask.config.set(scheduler="sync"):
        return np.asarray(_rand_da(p).compute())


defop("random", 0, _g_random, _rand_np, _rand_da, "leaf random", w=0)

defop(
    "literal",
    0,
    lambda g, ins: need(False),
    lambda p: np.array(p["data"], dtype=p["dtype"]).reshape(tuple(p["shape"])),
    lambda p: da().from_array(np.array(p["data"], dtype=p["dtype"]).reshape(tuple(p["shape"])), chunks=tuple(tuple(c) for c in p["chunks"])),
    "leaf",
    w=0,
)


def literal_step(value, chunks):
    """A leaf step holding `value` verbatim (used to re-run a program over a plain NumPy-backed copy of a leaf)."""
    a = np.asarray(value)
    return {"op": "literal", "in": [], "p": {"data": a.ravel().tolist(), "dtype": str(a.dtype), "shape": list(a.shape), "chunks": [list(map(int, c)) for c in chunks]}}


def _g_fftfreq(g, ins):
    n = g.rng.randint(1, g.max_extent * 2)
    return {"n": n, "d": g.rng.choice([0.5, 1.0, 2.0]), "chunks": list(rand_composition(g.rng, n))}


defop(
    "fftfreq",
    0,
    _g_fftfreq,
    lambda p: np.fft.fftfreq(p["n"], p["d"]),
    lambda p: da().fft.fftfreq(p["n"], p["d"], chunks=(tuple(p["chunks"]),)),
    "leaf creation",
    w=0,
    inexact=lambda p, ins, out: 1,
)

LEAF_OPS = ["from_array"] * 8 + ["arange", "fill", "linspace", "eye", "fftfreq"]

# ---- elementwise -----------------------------------------------------------

UNARY_EXACT = {
    "negative": "fiuc",
    "abs": "fiuc",
    "positive": "fiuc",
    "sign": "fi",
    "floor": "f",
    "ceil": "f",
    "trunc": "f",
    "rint": "f",
    "square": "fiuc",
    "conj": "fc",
    "real": "fc",
    "imag": "fc",
    "logical_not": "bfiu",
    "invert": "biu",
    "isnan": "fc",
    "isfinite": "fc",
    "sqrt": "f",
    "signbit": "f",
    "isinf": "f",
    "fabs": "f",
    "reciprocal": "f",
}
UNARY_TRANSC = {"sin": "f", "cos": "f", "tanh": "f", "arctan": "f", "exp": "f", "log1p": "f", "cbrt": "f", "expm1": "f", "arcsinh": "f", "deg2rad": "f"}


def _g_unary(g, ins):
    (a,) = ins
    cands = [n for n, kinds in UNARY_EXACT.items() if a.kind in kinds]
    cands += [n for n, kinds in UNARY_TRANSC.items() if a.kind in kinds]
    need(cands)
    fn = g.rng.choice(cands)
    if fn in ("exp", "expm1", "square"):
        need(a.mag <= 64 and a.inx == 0)
    if fn in ("log1p",):
        need(a.np.size == 0 or np.nanmin(a.np) > -0.9)
    if fn == "reciprocal":
        need(a.inx == 0 and zero_sign_safe(a))
    if fn in ("floor", "ceil", "trunc", "rint", "sign", "signbit"):
        need(a.inx == 0)
    if fn == "signbit":
        need(zero_sign_safe(a))
    if fn in ("sqrt", "cbrt", "log1p"):
        need(a.inx == 0)  # unbounded derivative (at 0 / -1) amplifies an inexact input without bound
    return {"fn": fn}


defop(
    "unary",
    1,
    _g_unary,
    lambda p, a: getattr(np, p["fn"])(a),
    lambda p, a: getattr(da(), p["fn"])(a),
    "elemwise",
    w=6,
    inexact=lambda p, ins, out: 1 if p["fn"] in UNARY_TRANSC else 0,
)

BINARY = {
    "add": ("fiuc", 0),
    "subtract": ("fiuc", 0),
    "multiply": ("fiuc", 0),
    "maximum": ("fiu", 0),
    "minimum": ("fiu", 0),
    "true_divide": ("fiu", 0),
    "floor_divide": ("iu", 0),
    "mod": ("iu", 0),
    "less": ("fiu", 0),
    "greater_equal": ("fiu", 0),
    "equal": ("fiubc", 0),
    "not_equal": ("fiubc", 0),
    "logical_and": ("fiub", 0),
    "logical_or": ("fiub", 0),
    "logical_xor": ("fiub", 0),
    "bitwise_and": ("iub", 0),
    "bitwise_or": ("iub", 0),
    "bitwise_xor": ("iub", 0),
    "arctan2": ("f", 1),
    "hypot": ("f", 1),
    "copysign": ("f", 0),
    "fmax": ("f", 0),
    "fmin": ("f", 0),
}
PYOPS = {"add": operator.add, "subtract": operator.sub, "multiply": operator.mul, "true_divide": operator.truediv, "less": operator.lt, "greater_equal": operator.ge, "equal": operator.eq, "not_equal": operator.ne}


def all_finite(v):
    """BLAS-backed contractions treat NaN*0 / inf*0 differently depending on the kernel chosen for
    a shape (the reference itself is not reproducible across blockings): keep non-finite values out."""
    a = v.np
    return a.dtype.kind not in "fc" or bool(np.isfinite(a).all())


def broadcastable(s1, s2):
    for a, b in zip(reversed(s1), reversed(s2)):
        if a != b and a != 1 and b != 1:
            return False
    return True


def _g_binary(g, ins):
    a, b = ins
    need(broadcastable(a.shape, b.shape))
    need(np.broadcast_shapes(a.shape, b.shape) is not None)
    cands = [n for n, (kinds, _) in BINARY.items() if a.kind in kinds and b.kind in kinds]
    if a.kind == "b" and b.kind == "b":
        cands = [c for c in cands if c not in ("subtract",)]
    need(cands)
    fn = g.rng.choice(cands)
    if fn in ("multiply",):
        need(a.mag * b.mag < 1e12)
    if fn == "true_divide":
        need(b.np.size == 0 or (a.inx == 0 and b.inx == 0))
        need(zero_sign_safe(b))
    if fn == "copysign":
        need(b.inx == 0 and zero_sign_safe(b))
    if fn == "arctan2":
        # discontinuous across the negative real axis and in the signs of zeros
        need(a.inx == 0 and b.inx == 0 and zero_sign_safe(a) and zero_sign_safe(b))
    if {a.dtype, b.dtype} & {np.dtype("u1"), np.dtype("i1")} and fn in ("floor_divide", "mod"):
        pass
    need(math.prod(np.broadcast_shapes(a.shape, b.shape)) <= g.max_size)
    return {"fn": fn, "viaop": fn in PYOPS and g.rng.random() < 0.5}


def _binary_np(p, a, b):
    if p.get("viaop"):
        return PYOPS[p["fn"]](a, b)
    return getattr(np, p["fn"])(a, b)


def _binary_da(p, a, b):
    if p.get("viaop"):
        return PYOPS[p["fn"]](a, b)
    return getattr(da(), p["fn"])(a, b)


defop("binary", 2, _g_binary, _binary_np, _binary_da, "elemwise", w=8, inexact=lambda p, ins, out: BINARY[p["fn"]][1])

SCALAR_OPS = ["add", "subtract", "multiply", "true_divide", "less", "greater_equal", "equal", "maximum", "minimum", "floor_divide", "mod", "power"]


def _g_scalar(g, ins):
    (a,) = ins
    need(a.kind in "fiu")
    fn = g.rng.choice(SCALAR_OPS)
    if fn == "power":
        need(a.mag <= 30 and a.inx == 0)
        s = g.rng.choice([0, 1, 2, 3])
        rev = False
    else:
        s = g.rng.choice([1, 2, 3, -1, -2, 0.5, 1.5, 4])
        rev = g.rng.random() < 0.3
        if a.kind in "iu" and fn in ("floor_divide", "mod"):
            s = int(abs(s)) or 2
        if a.kind == "u" and isinstance(s, (int, float)) and s < 0:
            s = 2
        if isinstance(s, float) and a.kind in "iu" and fn in ("floor_divide", "mod"):
            s = 2
    if fn in ("floor_divide", "mod") and a.kind == "f":
        need(a.inx == 0 and (not rev or zero_sign_safe(a)))
    if fn == "true_divide" and rev:
        need(a.inx == 0 and zero_sign_safe(a))  # s / x amplifies without bound near x == 0
    return {"fn": fn, "s": s, "rev": rev}


def _scalar_apply(mod, p, a):
    f = PYOPS.get(p["fn"]) if p["fn"] in PYOPS else getattr(mod, p["fn"])
    return f(p["s"], a) if p["rev"] else f(a, p["s"])


defop("scalar", 1, _g_scalar, lambda p, a: _scalar_apply(np, p, a), lambda p, a: _scalar_apply(da(), p, a), "elemwise", w=6)


def _g_where(g, ins):
    c, a, b = ins
    need(broadcastable(c.shape, a.shape) and broadcastable(a.shape, b.shape) and broadcastable(c.shape, b.shape))
    try:
        shp = np.broadcast_shapes(c.shape, a.shape, b.shape)
    except ValueError:
        raise Skip()
    need(math.prod(shp) <= g.max_size)
    need(a.kind in "fiub" and b.kind in "fiub" and c.kind in "bfiu")
    need(c.inx == 0)
    return {"thr": 0}


defop(
    "where",
    3,
    _g_where,
    lambda p, c, a, b: np.where(c > p["thr"] if c.dtype != bool else c, a, b),
    lambda p, c, a, b: da().where(c > p["thr"] if c.dtype != bool else c, a, b),
    "elemwise",
    w=2,
)


def _g_clip(g, ins):
    (a,) = ins
    need(a.kind in "fi")
    lo = g.rng.randint(-5, 2)
    return {"lo": lo, "hi": lo + g.rng.randint(0, 6)}


defop("clip", 1, _g_clip, lambda p, a: np.clip(a, p["lo"], p["hi"]), lambda p, a: da().clip(a, p["lo"], p["hi"]), "elemwise", w=1)


def _g_astype(g, ins):
    (a,) = ins
    to = g.rng.choice(["f8", "f4", "i8", "i4", "bool", "c16", "u1"])
    need(np.dtype(to) != a.dtype)
    if a.kind == "c":
        need(to == "c16")
    if a.kind == "f":
        need(to in ("f8", "f4", "c16", "bool") or (not np.isnan(a.np).any() and a.mag < 1e9 and to != "u1"))
        if to == "bool":
            need(not np.isnan(a.np).any() or True)
    if to == "f4":
        need(a.mag < 1e30)
    if a.kind in "iu" and to in ("u1",):
        need(a.np.size == 0 or (a.np.min() >= 0 and a.np.max() < 256))
    return {"to": to}


defop("astype", 1, _g_astype, lambda p, a: a.astype(p["to"]), lambda p, a: a.astype(p["to"]), "elemwise", w=2)

# ---- movement ---------------------------------------------------------------


def _g_transpose(g, ins):
    (a,) = ins
    need(a.ndim >= 2)
    axes = list(range(a.ndim))
    g.rng.shuffle(axes)
    if g.rng.random() < 0.2:
        axes = [x - a.ndim for x in axes]
    return {"axes": axes}


defop("transpose", 1, _g_transpose, lambda p, a: np.transpose(a, p["axes"]), lambda p, a: da().transpose(a, p["axes"]), "move", w=4)
defop("T", 1, lambda g, ins: (need(ins[0].ndim >= 1), {})[1], lambda p, a: a.T, lambda p, a: a.T, "move", w=2)


def _g_swapaxes(g, ins):
    (a,) = ins
    need(a.ndim >= 2)
    return {"a": rand_axis(g, a.ndim), "b": rand_axis(g, a.ndim)}


defop("swapaxes", 1, _g_swapaxes, lambda p, a: np.swapaxes(a, p["a"], p["b"]), lambda p, a: da().swapaxes(a, p["a"], p["b"]), "move", w=1)
defop("moveaxis", 1, _g_swapaxes, lambda p, a: np.moveaxis(a, p["a"], p["b"]), lambda p, a: da().moveaxis(a, p["a"], p["b"]), "move", w=1)


def _factor_pairs(n):
    return [(i, n // i) for i in range(1, n + 1) if n % i == 0]


def _g_reshape(g, ins):
    (a,) = ins
    need(a.np.size > 0)
    shp = list(a.shape)
    mode = g.rng.choice(["merge", "split", "flat", "flat2", "addone"])
    if mode == "merge":
        need(a.ndim >= 2)
        i = g.rng.randrange(a.ndim - 1)
        new = shp[:i] + [shp[i] * shp[i + 1]] + shp[i + 2 :]
    elif mode == "split":
        need(a.ndim >= 1)
        i = g.rng.randrange(a.ndim)
        f1, f2 = g.rng.choice(_factor_pairs(shp[i]))
        new = shp[:i] + [f1, f2] + shp[i + 1 :]
    elif mode == "flat":
        new = [-1]
    elif mode == "flat2":
        need(a.ndim >= 2)
        new = [shp[0], -1]
    else:
        i = g.rng.randrange(a.ndim + 1)
        new = shp[:i] + [1] + shp[i:]
    need(len(new) <= 4)
    return {"shape": new}


defop("reshape", 1, _g_reshape, lambda p, a: a.reshape(p["shape"]), lambda p, a: a.reshape(p["shape"]), "move reshape", w=3)
defop("ravel", 1, lambda g, ins: {}, lambda p, a: a.ravel(), lambda p, a: a.ravel(), "move reshape", w=1)


def _g_expand(g, ins):
    (a,) = ins
    need(a.ndim <= 3)
    return {"axis": g.rng.randint(-a.ndim - 1, a.ndim)}


defop("expand_dims", 1, _g_expand, lambda p, a: np.expand_dims(a, p["axis"]), lambda p, a: da().expand_dims(a, p["axis"]), "move", w=2)


def _g_squeeze(g, ins):
    (a,) = ins
    ones = [i for i, s in enumerate(a.shape) if s == 1]
    need(ones)
    if g.rng.random() < 0.4:
        return {"axis": None}
    return {"axis": g.rng.choice(ones)}


defop("squeeze", 1, _g_squeeze, lambda p, a: np.squeeze(a, p["axis"]), lambda p, a: da().squeeze(a, p["axis"]), "move", w=1)


def _g_flip(g, ins):
    (a,) = ins
    need(a.ndim >= 1)
    r = g.rng.random()
    if r < 0.2:
        return {"axis": None}
    return {"axis": rand_axis(g, a.ndim)}


defop("flip", 1, _g_flip, lambda p, a: np.flip(a, p["axis"]), lambda p, a: da().flip(a, p["axis"]), "move", w=2)


def _g_roll(g, ins):
    (a,) = ins
    need(a.ndim >= 1)
    if g.rng.random() < 0.25:
        return {"shift": g.rng.randint(-5, 5), "axis": None}
    if a.ndim >= 2 and g.rng.random() < 0.3:
        ax = g.rng.sample(range(a.ndim), 2)
        return {"shift": [g.rng.randint(-4, 4), g.rng.randint(-4, 4)], "axis": ax}
    return {"shift": g.rng.randint(-9, 9), "axis": rand_axis(g, a.ndim)}


defop(
    "roll",
    1,
    _g_roll,
    lambda p, a: np.roll(a, ax_arg(p["shift"]), ax_arg(p["axis"])),
    lambda p, a: da().roll(a, ax_arg(p["shift"]), ax_arg(p["axis"])),
    "move",
    w=2,
)


def _g_rot90(g, ins):
    (a,) = ins
    need(a.ndim >= 2)
    ax = g.rng.sample(range(a.ndim), 2)
    return {"k": g.rng.randint(-2, 3), "axes": ax}


defop("rot90", 1, _g_rot90, lambda p, a: np.rot90(a, p["k"], tuple(p["axes"])), lambda p, a: da().rot90(a, p["k"], tuple(p["axes"])), "move", w=1)


def _g_broadcast_to(g, ins):
    (a,) = ins
    need(a.ndim <= 3)
    shp = [s if s != 1 or g.rng.random() < 0.3 else g.rng.randint(1, 4) for s in a.shape]
    lead = [g.rng.randint(1, 3) for _ in range(g.rng.choice([0, 0, 1]))] if a.ndim <= 2 else []
    new = lead + shp
    need(math.prod(new) <= g.max_size)
    return {"shape": new}


defop("broadcast_to", 1, _g_broadcast_to, lambda p, a: np.broadcast_to(a, p["shape"]), lambda p, a: da().broadcast_to(a, p["shape"]), "move", w=1)


def _g_repeat(g, ins):
    (a,) = ins
    need(a.ndim >= 1)
    n = g.rng.randint(0, 3)
    need(a.np.size * max(n, 1) <= g.max_size)
    return {"n": n, "axis": rand_axis(g, a.ndim)}


defop("repeat", 1, _g_repeat, lambda p, a: np.repeat(a, p["n"], p["axis"]), lambda p, a: da().repeat(a, p["n"], p["axis"]), "move", w=1)


def _g_tile(g, ins):
    (a,) = ins
    need(1 <= a.ndim <= 3)
    reps = [g.rng.randint(1, 2) for _ in range(g.rng.randint(1, a.ndim))]
    need(a.np.size * math.prod(reps) <= g.max_size)
    return {"reps": reps if len(reps) > 1 or g.rng.random() < 0.5 else reps[0]}


defop("tile", 1, _g_tile, lambda p, a: np.tile(a, p["reps"]), lambda p, a: da().tile(a, p["reps"]), "move", w=1)


def rand_rechunk_spec(g, shape):
    r = g.rng.random()
    if r < 0.5:
        return [list(c) for c in rand_chunks(g.rng, shape)]
    if r < 0.7:
        return [g.rng.randint(1, max(1, s)) if g.rng.random() < 0.7 else -1 for s in shape]
    if r < 0.85 and shape:
        ax = g.rng.randrange(len(shape))
        return {"dict": {str(ax): g.rng.randint(1, max(1, shape[ax]))}}
    return g.rng.randint(1, max([1] + list(shape)))


def dec_rechunk_spec(spec):
    if isinstance(spec, dict):
        return {int(k): v for k, v in spec["dict"].items()}
    if isinstance(spec, list):
        return tuple(tuple(c) if isinstance(c, list) else c for c in spec)
    return spec


def _g_rechunk(g, ins):
    (a,) = ins
    need(a.ndim >= 1)
    return {"spec": rand_rechunk_spec(g, a.shape)}


defop("rechunk", 1, _g_rechunk, lambda p, a: a, lambda p, a: a.rechunk(dec_rechunk_spec(p["spec"])), "move rechunk", w=4)
defop("copy", 1, lambda g, ins: {}, lambda p, a: a.copy(), lambda p, a: a.copy(), "move", w=0.3)

# ---- combination --------------------------------------------------------------


def _g_concat(g, ins):
    a, b = ins
    need(a.ndim >= 1 and a.ndim == b.ndim)
    axes = [ax for ax in range(a.ndim) if all(a.shape[i] == b.shape[i] for i in range(a.ndim) if i != ax)]
    need(axes)
    ax = g.rng.choice(axes)
    need(a.np.size + b.np.size <= g.max_size)
    need(a.kind != "c" or b.kind in "fc")
    return {"axis": ax - (a.ndim if g.rng.random() < 0.3 else 0), "third": g.rng.random() < 0.3}


def _concat(mod, p, a, b):
    parts = [a, b, a] if p["third"] else [a, b]
    return mod.concatenate(parts, axis=p["axis"])


defop("concatenate", 2, _g_concat, lambda p, a, b: _concat(np, p, a, b), lambda p, a, b: _concat(da(), p, a, b), "combine", w=4)


def _g_stack(g, ins):
    a, b = ins
    need(a.shape == b.shape and a.ndim <= 3)
    need(2 * a.np.size <= g.max_size)
    return {"axis": g.rng.randint(-a.ndim - 1, a.ndim), "fn": g.rng.choice(["stack", "stack", "hstack", "vstack", "dstack"])}


def _stack(mod, p, a, b):
    if p["fn"] == "stack":
        return mod.stack([a, b], axis=p["axis"])
    return getattr(mod, p["fn"])([a, b])


defop("stack", 2, _g_stack, lambda p, a, b: _stack(np, p, a, b), lambda p, a, b: _stack(da(), p, a, b), "combine", w=3)


def _g_block(g, ins):
    a, b = ins
    need(a.shape == b.shape and 1 <= a.ndim <= 2)
    need(4 * a.np.size <= g.max_size)
    return {}


defop(
    "block",
    2,
    _g_block,
    lambda p, a, b: np.block([[a, b], [b, a]]),
    lambda p, a, b: da().block([[a, b], [b, a]]),
    "combine",
    w=1,
)


def _g_pad(g, ins):
    (a,) = ins
    need(a.ndim >= 1 and a.np.size > 0)
    mode = g.rng.choice(["constant", "edge", "reflect", "symmetric", "wrap", "constant"])
    hi = 9 if g.rng.random() < 0.25 else 3  # pads wider than the axis: NumPy repeats the image
    if g.rng.random() < 0.5:
        width = g.rng.randint(0, hi)
        wmax = width
    else:
        width = [[g.rng.randint(0, 2), g.rng.randint(0, hi)] for _ in range(a.ndim)]
        wmax = max(max(w) for w in width)
    need(math.prod(s + 2 * wmax for s in a.shape) <= g.max_size)
    p = {"mode": mode, "width": width}
    if mode == "constant" and g.rng.random() < 0.5:
        p["cv"] = g.rng.choice([0, 1, -2])
    return p


def _pad(mod, p, a):
    w = p["width"]
    w = tuple(tuple(x) for x in w) if isinstance(w, list) else w
    kw = {"constant_values": p["cv"]} if "cv" in p else {}
    return mod.pad(a, w, mode=p["mode"], **kw)


defop("pad", 1, _g_pad, lambda p, a: _pad(np, p, a), lambda p, a: _pad(da(), p, a), "combine", w=2)


def _g_tri(g, ins):
    (a,) = ins
    need(a.ndim >= 2)
    return {"fn": g.rng.choice(["tril", "triu"]), "k": g.rng.randint(-2, 2)}


defop("tri", 1, _g_tri, lambda p, a: getattr(np, p["fn"])(a, p["k"]), lambda p, a: getattr(da(), p["fn"])(a, p["k"]), "combine", w=1)


def _g_diagonal(g, ins):
    (a,) = ins
    need(a.ndim >= 2)
    ax = g.rng.sample(range(a.ndim), 2)
    return {"offset": g.rng.randint(-2, 2), "a1": ax[0], "a2": ax[1]}


defop(
    "diagonal",
    1,
    _g_diagonal,
    lambda p, a: np.diagonal(a, p["offset"], p["a1"], p["a2"]),
    lambda p, a: da().diagonal(a, p["offset"], p["a1"], p["a2"]),
    "combine",
    w=1,
)

# ---- indexing -------------------------------------------------------------------


def rand_slice(g, n, wild=False):
    rng = g.rng
    r = rng.random()
    if r < 0.15:
        return slice(None)
    lo, hi = (-n - 2, n + 2) if wild else (0, n)

    def bound():
        if rng.random() < 0.2:
            return None
        b = rng.randint(lo, hi)
        if not wild and rng.random() < 0.25 and n:
            b = b - n
        return b

    step = rng.choice([None, None, None, 1, 2, 3, -1, -1, -2, -3])
    return slice(bound(), bound(), step)


def rand_index(g, shape, fancy=True, newaxis=True, wild=False):
    """Random NumPy-valid-looking index tuple for `shape` (may still raise: caller mirrors)."""
    rng = g.rng
    idx = []
    used_fancy = False
    nd = len(shape)
    k = rng.randint(0, nd)
    use_ellipsis = rng.random() < 0.15
    for ax in range(k):
        n = shape[ax]
        r = rng.random()
        if newaxis and rng.random() < 0.08:
            idx.append(None)
        if r < 0.25 and n > 0:
            i = rng.randrange(n)
            if rng.random() < 0.3:
                i -= n
            idx.append(i)
        elif r < 0.35 and fancy and not used_fancy and n > 0:
            used_fancy = True
            m = rng.randint(0, min(6, 2 * n))
            lst = [rng.randrange(-n, n) for _ in range(m)]
            if rng.random() < 0.3:
                lst = sorted(x % n for x in lst)
            idx.append(lst)
        elif r < 0.42 and fancy and not used_fancy:
            used_fancy = True
            idx.append(np.array([rng.random() < 0.5 for _ in range(n)], dtype=bool))
        else:
            idx.append(rand_slice(g, n, wild))
    if use_ellipsis:
        pos = rng.randint(0, len(idx))
        idx.insert(pos, Ellipsis)
    if newaxis and rng.random() < 0.08:
        idx.append(None)
    return tuple(idx)


def _g_getitem(g, ins):
    (a,) = ins
    idx = rand_index(g, a.shape)
    return {"idx": enc_index(idx)}


defop("getitem", 1, _g_getitem, lambda p, a: a[dec_index(p["idx"])], lambda p, a: a[dec_index(p["idx"])], "index", w=10)


def _g_take(g, ins):
    (a,) = ins
    need(a.ndim >= 1)
    ax = rand_axis(g, a.ndim)
    n = a.shape[ax]
    need(n > 0)
    m = g.rng.randint(1, min(8, 2 * n))
    return {"ind": [g.rng.randrange(-n, n) for _ in range(m)], "axis": ax}


defop("take", 1, _g_take, lambda p, a: np.take(a, p["ind"], axis=p["axis"]), lambda p, a: da().take(a, p["ind"], axis=p["axis"]), "index", w=2)


def _g_daskint_index(g, ins):
    a, b = ins
    need(a.ndim >= 1 and b.ndim == 1 and b.kind in "iu" and b.np.size > 0)
    n = a.shape[0]
    need(n > 0)
    return {"n": n}


defop(
    "index_by_array",
    2,
    _g_daskint_index,
    lambda p, a, b: a[(b.astype(np.int64) % p["n"])],
    lambda p, a, b: a[(b.astype(np.int64) % p["n"])],
    "index",
    w=1.5,
)


def _g_setitem(g, ins):
    (a,) = ins
    need(a.np.size > 0 and a.kind in "fi")
    idx = rand_index(g, a.shape, fancy=False, newaxis=False)
    need(not any(isinstance(e, slice) and e.step is not None and e.step < 0 for e in idx) or True)
    return {"idx": enc_index(idx), "val": g.rng.choice([0, -7, 3])}


def _setitem_np(p, a):
    b = a.copy()
    b[dec_index(p["idx"])] = p["val"]
    return b


def _setitem_da(p, a):
    b = a.copy()
    b[dec_index(p["idx"])] = p["val"]
    return b


defop("setitem", 1, _g_setitem, _setitem_np, _setitem_da, "index setitem", w=2)


def _g_setitem_array(g, ins):
    (a,) = ins
    need(a.np.size > 0 and a.kind in "fi" and a.ndim >= 1)
    idx = []
    for n in a.shape:
        r = g.rng.random()
        if r < 0.35 or n == 0:
            idx.append(slice(None))
        else:
            lo = g.rng.randint(0, n - 1)
            hi = g.rng.randint(lo + 1, n)
            idx.append(slice(lo, hi, g.rng.choice([None, None, 2])))
    idx = tuple(idx)
    sel = a.np[idx].shape
    need(int(np.prod(sel)) > 0)
    bshape = [1 if (g.rng.random() < 0.3) else k for k in sel]
    if g.rng.random() < 0.3:
        bshape = bshape[1:]
    masked = a.kind == "f" and g.rng.random() < 0.4
    return {"idx": enc_index(idx), "vshape": bshape, "vseed": g.rng.randrange(10**6), "masked": masked, "as_dask": (not masked) and g.rng.random() < 0.4}


def _setitem_value(p, dtype):
    r = np.random.default_rng(p["vseed"])
    v = (r.integers(-40, 40, size=tuple(p["vshape"])) * (0.5 if np.dtype(dtype).kind == "f" else 1)).astype(dtype)
    if p["masked"]:
        m = r.random(v.shape) < 0.4
        v = np.ma.array(v, mask=m)
    return v


def _setitem_array_np(p, a):
    v = _setitem_value(p, a.dtype)
    b = np.ma.array(a.copy()) if p["masked"] else a.copy()
    b[dec_index(p["idx"])] = v
    return b


def _setitem_array_da(p, a):
    v = _setitem_value(p, a.dtype)
    if p["as_dask"]:
        v = da().from_array(v, chunks=tuple(max(1, (k + 1) // 2) for k in v.shape))
    b = a.copy()
    b[dec_index(p["idx"])] = v
    return b


defop("setitem_array", 1, _g_setitem_array, _setitem_array_np, _setitem_array_da, "index setitem", w=1.5)


def _g_setitem_mask(g, ins):
    (a,) = ins
    need(a.np.size > 0 and a.kind in "fi" and a.inx == 0)
    return {"thr": g.rng.randint(-3, 3), "val": g.rng.choice([0, 5, -1])}


def _setitem_mask(p, a):
    b = a.copy()
    b[b > p["thr"]] = p["val"]
    return b


defop("setitem_mask", 1, _g_setitem_mask, _setitem_mask, _setitem_mask, "index setitem", w=1)

# ---- reductions -------------------------------------------------------------------

REDS = {
    "sum": "fiubc",
    "prod": "iu",
    "min": "fiub",
    "max": "fiub",
    "any": "fiub",
    "all": "fiub",
    "mean": "fiubc",
    "var": "fiu",
    "std": "fiu",
    "nansum": "f",
    "nanmin": "f",
    "nanmax": "f",
    "nanmean": "f",
    "nanvar": "f",
    "nanstd": "f",
    "nanprod": "f",
    "ptp": "fiu",
    "count_nonzero": "fiub",
}


def _g_reduce(g, ins):
    (a,) = ins
    cands = [n for n, kinds in REDS.items() if a.kind in kinds]
    need(cands)
    fn = g.rng.choice(cands)
    axis = rand_axes(g, a.ndim)
    if fn in ("min", "max", "nanmin", "nanmax", "ptp"):
        # NumPy raises on empty reductions without identity
        axes = range(a.ndim) if axis is None else ([axis] if isinstance(axis, int) else axis)
        need(all(a.shape[ax] > 0 for ax in axes))
    if fn in ("nanmin", "nanmax"):
        need(a.np.size > 0)
    if fn == "nanprod":
        need(a.mag <= 4)
    if fn in ("prod", "nanprod"):
        need(a.inx == 0)  # a product amplifies last-bit noise without bound (an exact 0.0 vs 1e-16 decides the result)
    if fn == "ptp":
        need(axis is None or isinstance(axis, int))
    p = {"fn": fn, "axis": axis}
    if fn not in ("ptp", "count_nonzero"):
        p["keepdims"] = g.rng.random() < 0.3
        if g.rng.random() < 0.35:
            p["split_every"] = g.rng.choice([2, 3, 4])
    if fn in ("var", "std", "nanvar", "nanstd") and g.rng.random() < 0.3:
        p["ddof"] = 1
    return p


def _reduce_np(p, a):
    kw = {}
    if "keepdims" in p:
        kw["keepdims"] = p["keepdims"]
    if "ddof" in p:
        kw["ddof"] = p["ddof"]
    return getattr(np, p["fn"])(a, axis=ax_arg(p["axis"]), **kw)


def _reduce_da(p, a):
    kw = {}
    if "keepdims" in p:
        kw["keepdims"] = p["keepdims"]
    if "ddof" in p:
        kw["ddof"] = p["ddof"]
    if "split_every" in p:
        kw["split_every"] = p["split_every"]
    return getattr(da(), p["fn"])(a, axis=ax_arg(p["axis"]), **kw)


def _reduce_inexact(p, ins, out):
    fn = p["fn"]
    a = ins[0]
    if fn in ("min", "max", "any", "all", "nanmin", "nanmax", "ptp", "count_nonzero"):
        return 0
    if fn in ("var", "std", "nanvar", "nanstd", "nanprod"):
        return 1 if a.kind == "f" or True else 0
    if a.kind in "iub" and fn in ("sum", "prod"):
        return 0
    if a.kind == "c" and fn in ("mean", "nanmean"):
        return 1
    return 0 if dyadic(a.np) else 1


defop("reduce", 1, _g_reduce, _reduce_np, _reduce_da, "reduction", w=10, inexact=_reduce_inexact)


def _g_argred(g, ins):
    (a,) = ins
    need(a.kind in "fiu" and a.np.size > 0)
    fn = g.rng.choice(["argmin", "argmax", "nanargmin", "nanargmax"] if a.kind == "f" else ["argmin", "argmax"])
    axis = None if (a.ndim == 0 or g.rng.random() < 0.3) else rand_axis(g, a.ndim)
    if fn.startswith("nan"):
        # all-NaN slices raise in NumPy
        with np.errstate(all="ignore"):
            if axis is None:
                need(not np.isnan(a.np).all())
            else:
                need(not np.isnan(a.np).all(axis=axis).any())
    p = {"fn": fn, "axis": axis}
    if g.rng.random() < 0.3:
        p["split_every"] = 2
    if g.rng.random() < 0.3:
        p["keepdims"] = True
    return p


def _argred_np(p, a):
    kw = {"keepdims": True} if p.get("keepdims") else {}
    return getattr(np, p["fn"])(a, axis=p["axis"], **kw)


def _argred_da(p, a):
    kw = {"keepdims": True} if p.get("keepdims") else {}
    if "split_every" in p:
        kw["split_every"] = p["split_every"]
    return getattr(da(), p["fn"])(a, axis=p["axis"], **kw)


defop("argreduce", 1, _g_argred, _argred_np, _argred_da, "reduction", w=3)


def _g_cum(g, ins):
    (a,) = ins
    need(a.kind in "fiu")
    fn = g.rng.choice(["cumsum", "cumsum", "cumprod", "nancumsum"] if a.kind == "f" else ["cumsum", "cumprod"])
    if fn == "cumprod":
        need(a.mag <= 3)
    axis = None if g.rng.random() < 0.2 else (rand_axis(g, a.ndim) if a.ndim else None)
    p = {"fn": fn, "axis": axis}
    if g.rng.random() < 0.4:
        p["method"] = "blelloch"
    if fn != "cumprod" and g.rng.random() < 0.25:
        # an explicit (narrowing or kind-changing) accumulator dtype: every block must come out in it
        p["dtype"] = g.rng.choice(["f4", "f8"] if a.kind == "f" else ["i4", "f8", "i8"])
        need(a.mag <= 2**20)
    return p


def _cum_da(p, a):
    kw = {"method": p["method"]} if "method" in p else {}
    if p.get("dtype"):
        kw["dtype"] = p["dtype"]
    return getattr(da(), p["fn"])(a, axis=p["axis"], **kw)


def _cum_np(p, a):
    kw = {"dtype": p["dtype"]} if p.get("dtype") else {}
    return getattr(np, p["fn"])(a, axis=p["axis"], **kw)


defop(
    "cumulative",
    1,
    _g_cum,
    _cum_np,
    _cum_da,
    "reduction scan",
    w=3,
    inexact=lambda p, ins, out: 0 if ((ins[0].kind in "iu" and p.get("dtype") not in ("f4",)) or (p["fn"] != "cumprod" and dyadic(ins[0].np) and p.get("dtype") != "f4")) else 1,
)


def _g_topk(g, ins):
    (a,) = ins
    need(a.ndim >= 1 and a.kind in "fiu" and a.np.size > 0)
    need(a.kind != "f" or not np.isnan(a.np).any())
    ax = rand_axis(g, a.ndim)
    n = a.shape[norm_axis(ax, a.ndim)]
    k = g.rng.randint(1, n)
    if g.rng.random() < 0.4:
        k = -k
    return {"k": k, "axis": ax}


def _topk_np(p, a):
    k, axis = p["k"], p["axis"]
    s = np.sort(a, axis=axis)
    if k > 0:
        s = np.flip(s, axis=axis)
        return np.take(s, range(k), axis=axis)
    return np.take(s, range(-k), axis=axis)


defop("topk", 1, _g_topk, _topk_np, lambda p, a: da().topk(a, p["k"], axis=p["axis"]), "reduction", w=1)


def _g_diff(g, ins):
    (a,) = ins
    need(a.ndim >= 1 and a.kind in "fi")
    return {"n": g.rng.choice([1, 1, 2]), "axis": rand_axis(g, a.ndim)}


defop("diff", 1, _g_diff, lambda p, a: np.diff(a, p["n"], p["axis"]), lambda p, a: da().diff(a, p["n"], p["axis"]), "window", w=2)

# ---- windows -----------------------------------------------------------------------


def _g_swv(g, ins):
    (a,) = ins
    need(1 <= a.ndim <= 3)
    ax = rand_axis(g, a.ndim, neg=False)
    n = a.shape[ax]
    need(n >= 1)
    w = g.rng.randint(1, n)
    need(a.np.size * w <= g.max_size)
    return {"w": w, "axis": ax}


def _swv_np(p, a):
    return np.lib.stride_tricks.sliding_window_view(a, p["w"], axis=p["axis"])


defop("sliding_window_view", 1, _g_swv, _swv_np, lambda p, a: da().sliding_window_view(a, p["w"], axis=p["axis"]), "window", w=3)


def _g_swred(g, ins):
    (a,) = ins
    p = _g_swv(g, ins)
    need(a.kind in "fi")
    p["fn"] = g.rng.choice(["sum", "mean", "max", "min", "nansum", "nanmean", "nanmax", "var", "std", "prod"] if a.kind == "f" else ["sum", "mean", "max", "min", "var"])
    if p["fn"] == "prod":
        need(a.mag <= 2)
    p["keepdims"] = g.rng.random() < 0.2
    return p


def _swred(mod, view, p, a):
    return getattr(mod, p["fn"])(view(p, a), axis=-1, keepdims=p["keepdims"])


defop(
    "sliding_reduce",
    1,
    _g_swred,
    lambda p, a: _swred(np, _swv_np, p, a),
    lambda p, a: _swred(da(), lambda p, a: da().sliding_window_view(a, p["w"], axis=p["axis"]), p, a),
    "window reduction",
    w=4,
    inexact=lambda p, ins, out: 0 if (p["fn"] in ("max", "min", "nanmax") or (p["fn"] in ("sum", "nansum", "mean", "nanmean") and dyadic(ins[0].np))) and p["fn"] not in ("mean", "nanmean") else 1,
)


def _g_map_overlap(g, ins):
    (a,) = ins
    need(a.ndim >= 1 and a.kind in "fi" and a.np.size > 0)
    need(min(a.shape) >= 1)
    boundary = g.rng.choice(["none", "reflect", "periodic", "nearest", 0, 5])
    depth = g.rng.choice([1, 1, 2])
    need(min(a.shape) >= depth)  # dask refuses depth > axis length (documented limit, raised lazily)
    return {"boundary": boundary, "depth": depth}


NP_PAD_MODE = {"reflect": "symmetric", "periodic": "wrap", "nearest": "edge"}


def _map_overlap_np(p, a):
    d = p["depth"]
    b = p["boundary"]
    if b == "none":
        return K.k_shift_sum(a)
    if isinstance(b, int):
        padded = np.pad(a, d, mode="constant", constant_values=b)
    else:
        padded = np.pad(a, d, mode=NP_PAD_MODE[b])
    out = K.k_shift_sum(padded)
    return out[tuple(slice(d, -d) for _ in range(a.ndim))]


def _map_overlap_da(p, a):
    return da().map_overlap(K.k_shift_sum, a, depth=p["depth"], boundary=p["boundary"], dtype=a.dtype)


defop("map_overlap", 1, _g_map_overlap, _map_overlap_np, _map_overlap_da, "window overlap", w=2)

# ---- directed shapes for fusion-conflict detection and shuffle pushdown --------------------------


def _g_tsib(g, ins):
    (a,) = ins
    need(a.ndim >= 3 and a.kind in "fi" and a.np.size > 0)
    nd = a.ndim
    q = list(range(nd))
    pp = list(range(nd))
    g.rng.shuffle(q)
    g.rng.shuffle(pp)
    out = {"q": q, "p": pp, "fn": g.rng.choice(["k_add_one", "k_double"])}
    n = min(a.shape)
    if n >= 2 and g.rng.random() < 0.6:
        # cut a cube with one chunk size on every axis: the sibling may then be read through ANY permutation r (not only
        # the composite of the first path), so the two paths need different blocks of the shared node
        r = list(range(nd))
        g.rng.shuffle(r)
        out.update({"cube": n, "c": g.rng.randint(1, max(1, n // 2)), "r": r})
    return out


def _tsib_np(p, a):
    q, pp = p["q"], p["p"]
    r = p.get("r") or [q[i] for i in pp]
    if p.get("cube"):
        a = a[(slice(0, p["cube"]),) * a.ndim]
    s = -a
    return K.KERNELS[p["fn"]](np.transpose(s, q)).transpose(pp) + np.transpose(s, r)


def _tsib_dask(p, a):
    q, pp = p["q"], p["p"]
    r = p.get("r") or [q[i] for i in pp]
    if p.get("cube"):
        a = a[(slice(0, p["cube"]),) * a.ndim].rechunk((p["c"],) * a.ndim)
    shared = da().map_blocks(K.k_neg, a, dtype=a.dtype)
    b1 = da().map_blocks(K.KERNELS[p["fn"]], da().transpose(shared, q), dtype=a.dtype).transpose(pp)
    return b1 + da().transpose(shared, r)


defop("transposed_siblings", 1, _g_tsib, _tsib_np, _tsib_dask, "move blockwise map_blocks", w=0.8)


def _g_expand_take(g, ins):
    (a,) = ins
    need(a.ndim >= 1 and a.ndim <= 2 and a.np.size > 0)
    k = g.rng.randint(2, 3)
    ax = g.rng.randrange(a.ndim)
    n = a.shape[ax]
    ind = [g.rng.randrange(-n, n) for _ in range(g.rng.randint(1, 6))]
    if g.rng.random() < 0.5:
        ind = list(g.rng.sample(range(n), n))  # a permutation keeps shape and dtype: only the values can tell
    return {"k": k, "axis": ax, "ind": ind}


def _expand_take(mod, p, a):
    y = a[(None,) * p["k"]]
    return mod.take(y, p["ind"], axis=p["k"] + p["axis"])


defop("expand_take", 1, _g_expand_take, lambda p, a: _expand_take(np, p, a), lambda p, a: _expand_take(da(), p, a), "index shuffle move", w=0.8)


# ---- bottleneck moving-window reductions (xarray's rolling path) ------------------------------


def _g_move(g, ins):
    (a,) = ins
    need(a.ndim >= 1 and a.np.dtype == np.float64 and a.np.size > 0)
    # bottleneck's running sums are history dependent once an inf has passed through the window (inf - inf = nan for
    # every later window of the whole array, but not across a block restart): only NaN and finite inputs have a definition
    need(not np.isinf(a.np).any())
    ax = g.rng.randrange(a.ndim)
    n = a.shape[ax]
    need(n >= 2)
    w = g.rng.randint(2, min(n, 6))
    fn = g.rng.choice(["move_sum", "move_mean", "move_min", "move_max"])
    mc = g.rng.choice([None, None, 1, w, max(1, w - 1)])
    return {"fn": fn, "w": w, "axis": ax, "min_count": mc}


def _move_np(p, a):
    import bottleneck as bn

    return getattr(bn, p["fn"])(a.copy(), p["w"], min_count=p["min_count"], axis=p["axis"])


def _move_da(p, a):
    import bottleneck as bn

    return a.map_overlap(getattr(bn, p["fn"]), depth={p["axis"]: (p["w"] - 1, 0)}, dtype="f8", window=p["w"], min_count=p["min_count"], axis=p["axis"])


defop("move_window", 1, _g_move, _move_np, _move_da, "window move", w=1.5, inexact=lambda p, ins, out: 0 if p["fn"] in ("move_min", "move_max") else 1)


# ---- ufunc(..., where=<array>, out=<array>) ---------------------------------------------------


def _g_where_out(g, ins):
    x, y = ins
    need(x.np.size > 0 and x.ndim >= 1 and x.kind in "fi" and y.kind in "fiu")
    need(broadcastable(y.shape, x.shape) and len(y.shape) <= len(x.shape))
    need(all(b in (1, a) for a, b in zip(x.shape[::-1], y.shape[::-1])))
    fn = g.rng.choice(["add", "subtract", "multiply", "maximum"])
    need(np.result_type(x.np.dtype, y.np.dtype) == x.np.dtype)
    need(x.inx == 0 and y.inx == 0)  # the mask is a comparison: discontinuous in an operand that is only known up to rounding
    if fn == "multiply":
        need(x.mag <= 2**20 and y.mag <= 2**10 and x.inx == 0 and y.inx == 0)
    return {"fn": fn, "thr": g.rng.randint(-2, 3), "mask_of": g.rng.choice(["x", "y"]), "out": g.rng.choice(["x", "x", "y2", "x_shared", "x_shared"])}


def _where_out(mod, p, x, y):
    m = (x if p["mask_of"] == "x" else y) > p["thr"]
    if mod is np:
        m = np.broadcast_to(m, x.shape)
        o = (x * 2 if p["out"] == "y2" else x).copy()
        getattr(np, p["fn"])(x, y, where=m, out=o)
        return o - x if p["out"] == "x_shared" else o
    o = x * 2 if p["out"] == "y2" else x.copy()  # x.copy() shares x's expression: `out` then has x's other consumers as siblings
    r = getattr(mod, p["fn"])(x, y, where=m, out=o)
    # "x_shared": the value out was taken from keeps a second consumer in the same graph, so a kernel writing into
    # the block it was given would be seen by that sibling
    return o - x if p["out"] == "x_shared" else o


defop("ufunc_where_out", 2, _g_where_out, lambda p, x, y: _where_out(np, p, x, y), lambda p, x, y: _where_out(da(), p, x, y), "elemwise whereout", w=1.5)

# ---- map_blocks / blockwise -----------------------------------------------------------


def _g_map_blocks(g, ins):
    (a,) = ins
    need(a.kind in "fi")
    fn = g.rng.choice(["k_add_one", "k_double", "k_neg"])
    return {"fn": fn, "dtype": g.rng.random() < 0.6}


def _map_blocks_da(p, a):
    kw = {"dtype": a.dtype} if p["dtype"] else {}
    return da().map_blocks(K.KERNELS[p["fn"]], a, **kw)


defop("map_blocks", 1, _g_map_blocks, lambda p, a: K.KERNELS[p["fn"]](a), _map_blocks_da, "blockwise map_blocks", w=3)


def _g_map_blocks_local(g, ins):
    (a,) = ins
    need(a.kind in "fi" and a.ndim >= 1 and a.np.size > 0 and a.da is not None)
    need(not isinstance(a.np, np.ma.MaskedArray))
    need(a.inx == 0 and a.kind == "i")  # b - b.max() is compared exactly: integer inputs only (a float linspace leaf re-sliced by the optimizer differs in the last bit)
    ch = a.da.chunks
    need(all(not (isinstance(c, float) and c != c) for dim in ch for c in dim))
    if a.np.dtype.kind == "i":
        need(float(np.abs(a.np.astype("f8")).max()) < 2**30)
    # the advertised grid is part of the program: the kernel's result depends on the block boundaries
    return {"chunks": [[int(c) for c in dim] for dim in ch], "dtype": g.rng.random() < 0.6}


def _map_blocks_local_np(p, a):
    out = np.empty_like(a)
    offs = [np.concatenate([[0], np.cumsum(c)]).astype(int) for c in p["chunks"]]
    if [int(o[-1]) for o in offs] != list(a.shape):
        raise Skip("recorded grid does not tile the input")
    for loc in itertools.product(*[range(len(c)) for c in p["chunks"]]):
        sl = tuple(slice(int(offs[d][i]), int(offs[d][i + 1])) for d, i in enumerate(loc))
        out[sl] = K.k_block_submax(a[sl])
    return out


def _map_blocks_local_da(p, a):
    if [[int(c) for c in dim] for dim in a.chunks] != p["chunks"]:
        raise Skip("input grid differs from the recorded one")
    if a.dtype.kind not in "fi":
        raise Skip("kernel would change the dtype declared for it")
    kw = {"dtype": a.dtype} if p["dtype"] else {}
    return da().map_blocks(K.k_block_submax, a, **kw)


# weight 0: only placed by checks as the ROOT consumer of a program (dask_array pushes slices/shuffles THROUGH a plain
# map_blocks as if its function were position-wise - a documented design assumption - so a block-local kernel in the
# middle of a program is outside what the optimizer promises; BELOW such a consumer the grid must be preserved)
defop("map_blocks_local", 1, _g_map_blocks_local, _map_blocks_local_np, _map_blocks_local_da, "blockwise map_blocks", w=0)


def _g_map_blocks_kwarg(g, ins):
    a, b = ins
    need(a.kind in "fi" and b.kind in "fi" and b.np.size > 0 and a.mag + b.mag * max(1, b.np.size) < 1e12)
    need(not isinstance(a.np, np.ma.MaskedArray) and not isinstance(b.np, np.ma.MaskedArray))
    return {"how": g.rng.choice(["sum", "delayed"])}


def _map_blocks_kwarg_np(p, a, b):
    return a + b.sum()


def _map_blocks_kwarg_da(p, a, b):
    # a dask collection handed to the kernel by keyword (its graph must be merged into the layer)
    off = b.sum()
    if p["how"] == "delayed":
        import dask

        off = dask.delayed(K.k_ident, pure=True)(off)  # pure: a deterministic key (an impure Delayed is named at random)
    dt = (np.zeros(1, a.dtype) + np.zeros(1, b.dtype).sum()).dtype  # what NumPy gives for a + b.sum()
    return da().map_blocks(K.k_add_offset, a, offset=off, dtype=dt)


defop("map_blocks_kwarg", 2, _g_map_blocks_kwarg, _map_blocks_kwarg_np, _map_blocks_kwarg_da, "blockwise map_blocks", w=1.0, inexact=lambda p, ins, out: 1 if out.dtype.kind in "fc" else 0)


def _g_map_blocks_chunks(g, ins):
    (a,) = ins
    need(a.kind in "fi" and a.ndim >= 1 and a.da is not None)
    ch = a.da.chunks
    need(all(not (isinstance(c, float) and c != c) for dim in ch for c in dim))
    return {"fn": g.rng.choice(["k_add_one", "k_double"]), "chunks": [[int(c) for c in dim] for dim in ch]}


def _map_blocks_chunks_da(p, a):
    if [[int(c) for c in dim] for dim in a.chunks] != p["chunks"]:
        raise Skip("input grid differs from the recorded one")
    if a.dtype.kind not in "fi":
        raise Skip("kernel would change the dtype declared for it")
    # explicit chunks= : the block grid of the input is recorded in the node
    return da().map_blocks(K.KERNELS[p["fn"]], a, chunks=tuple(tuple(c) for c in p["chunks"]), dtype=a.dtype)


defop("map_blocks_chunks", 1, _g_map_blocks_chunks, lambda p, a: K.KERNELS[p["fn"]](a), _map_blocks_chunks_da, "blockwise map_blocks", w=1.0)


def _g_map_blocks2(g, ins):
    a, b = ins
    need(a.kind in "fi" and b.kind in "fi")
    need(a.shape == b.shape and a.ndim >= 1)
    return {"scale": g.rng.choice([2, 3])}


def _map_blocks2_da(p, a, b):
    b = b.rechunk(a.chunks)
    return da().map_blocks(K.k_sub_scaled, a, b, scale=p["scale"], dtype=np.result_type(a.dtype, b.dtype))


defop("map_blocks2", 2, _g_map_blocks2, lambda p, a, b: K.k_sub_scaled(a, b, p["scale"]), _map_blocks2_da, "blockwise map_blocks", w=1.5)


def _g_blockwise_outer(g, ins):
    a, b = ins
    need(a.ndim == 1 and b.ndim == 1 and a.kind in "fi" and b.kind in "fi")
    need(a.np.size * b.np.size <= g.max_size and a.mag * b.mag < 1e12)
    return {}


defop(
    "blockwise_outer",
    2,
    _g_blockwise_outer,
    lambda p, a, b: K.k_bw_outer(a, b),
    lambda p, a, b: da().blockwise(K.k_bw_outer, "ij", a, "i", b, "j", dtype=np.result_type(a.dtype, b.dtype)),
    "blockwise",
    w=1,
)

# ---- shuffle ----------------------------------------------------------------------------


def _g_shuffle(g, ins):
    (a,) = ins
    need(a.ndim >= 1)
    ax = rand_axis(g, a.ndim, neg=False)
    n = a.shape[ax]
    need(n >= 1)
    perm = list(range(n))
    g.rng.shuffle(perm)
    groups = []
    i = 0
    while i < n:
        k = g.rng.randint(1, max(1, n // 2))
        groups.append(perm[i : i + k])
        i += k
    return {"indexer": groups, "axis": ax}


def _shuffle_np(p, a):
    flat = [i for grp in p["indexer"] for i in grp]
    return np.take(a, flat, axis=p["axis"])


defop("shuffle", 1, _g_shuffle, _shuffle_np, lambda p, a: a.shuffle(p["indexer"], axis=p["axis"]), "index shuffle", w=2)

# ---- linalg ---------------------------------------------------------------------------------


def _lin_inexact(p, ins, out):
    a, b = ins
    if a.kind in "iub" and b.kind in "iub":
        return 0
    single = a.dtype.itemsize <= 4 or b.dtype.itemsize <= 4
    qb, mb = (2, 4) if single else (8, 8)
    return 0 if dyadic(a.np, qb, mb) and dyadic(b.np, qb, mb) else 1


def _g_tensordot(g, ins):
    a, b = ins
    need(a.ndim >= 1 and b.ndim >= 1 and a.kind in "fiu" and b.kind in "fiu")
    need(all_finite(a) and all_finite(b))
    pairs = [(i, j) for i in range(a.ndim) for j in range(b.ndim) if a.shape[i] == b.shape[j]]
    need(pairs)
    i, j = g.rng.choice(pairs)
    osz = math.prod(a.shape) // max(1, a.shape[i]) * (math.prod(b.shape) // max(1, b.shape[j]))
    need(osz <= g.max_size and a.ndim + b.ndim - 2 <= 4)
    need(a.mag * b.mag < 1e12)
    return {"axes": [[i], [j]]}


defop(
    "tensordot",
    2,
    _g_tensordot,
    lambda p, a, b: np.tensordot(a, b, axes=p["axes"]),
    lambda p, a, b: da().tensordot(a, b, axes=p["axes"]),
    "linalg",
    w=2,
    inexact=_lin_inexact,
)


def _g_matmul(g, ins):
    a, b = ins
    need(a.kind in "fiu" and b.kind in "fiu")
    need(all_finite(a) and all_finite(b))
    need(1 <= a.ndim <= 3 and 1 <= b.ndim <= 3)
    try:
        out = np.matmul(a.np, b.np)
    except Exception:
        raise Skip()
    need(out.size <= g.max_size and a.mag * b.mag < 1e12)
    return {"fn": g.rng.choice(["matmul", "dot"]) if (a.ndim <= 2 and b.ndim <= 2) else "matmul"}


defop(
    "matmul",
    2,
    _g_matmul,
    lambda p, a, b: getattr(np, p["fn"])(a, b),
    lambda p, a, b: getattr(da(), p["fn"])(a, b),
    "linalg",
    w=2,
    inexact=_lin_inexact,
)


def _g_outer(g, ins):
    a, b = ins
    need(a.kind in "fiu" and b.kind in "fiu" and a.ndim <= 2 and b.ndim <= 2)
    need(a.np.size * b.np.size <= g.max_size and a.mag * b.mag < 1e12)
    return {}


defop("outer", 2, _g_outer, lambda p, a, b: np.outer(a, b), lambda p, a, b: da().outer(a, b), "linalg", w=1)


def _g_einsum(g, ins):
    a, b = ins
    need(a.kind in "fi" and b.kind in "fi" and a.mag * b.mag < 1e12)
    need(all_finite(a) and all_finite(b))
    if a.ndim == 2 and b.ndim == 2 and a.shape[1] == b.shape[0]:
        sub = g.rng.choice(["ij,jk->ik", "ij,jk->ki", "ij,jk->i"])
    elif a.ndim == 2 and b.ndim == 1 and a.shape[1] == b.shape[0]:
        sub = "ij,j->i"
    elif a.ndim == 1 and b.ndim == 1 and a.shape == b.shape:
        sub = g.rng.choice(["i,i->", "i,i->i"])
    elif a.ndim == 2 and a.shape == b.shape:
        sub = g.rng.choice(["ij,ij->ij", "ij,ij->j", "ij,ij->"])
    else:
        raise Skip()
    return {"sub": sub}


defop("einsum", 2, _g_einsum, lambda p, a, b: np.einsum(p["sub"], a, b), lambda p, a, b: da().einsum(p["sub"], a, b), "linalg", w=1, inexact=_lin_inexact)

# --------------------------------------------------------------------------
# program
# --------------------------------------------------------------------------


COMPLEX_EXACT_FNS = {"add", "subtract", "negative", "positive", "conj", "real", "imag", "equal", "not_equal", "isnan", "isfinite", "logical_not"}


def complex_inexact(op, p, ins, out):
    """Complex multiply/divide/abs/square go through FMA/hypot code paths whose SIMD and scalar
    variants may differ in the last bit between a whole array and its blocks."""
    if "elemwise" not in op.tags:
        return False
    if not (out.dtype.kind == "c" or any(v.np.dtype.kind == "c" for v in ins)):
        return False
    fn = p.get("fn") if isinstance(p, dict) else None
    return fn not in COMPLEX_EXACT_FNS and op.name not in ("where", "astype")


def vsame(v, got, check_dtype=True):
    """Compare a computed result with variable v's NumPy mirror under v's tolerance."""
    from vf.oracles import same

    return same(v.np, got, v.inx, v.mag, check_dtype=check_dtype, eps=v.eps)


class Prog:
    def __init__(self, rng, max_extent=7, max_ndim=3, max_size=4000, dtypes=None, weights=None, nan_prob=0.12, ops=None, build=True):
        self.rng = rng
        self.max_extent = max_extent
        self.max_ndim = max_ndim
        self.max_size = max_size
        self.dtypes = dtypes or DTYPES
        self.nan_prob = nan_prob
        self.vars = []
        self.steps = []
        self.refused = Counter()
        self.attempted = Counter()
        self.build = build
        names = ops or [n for n, o in OPS.items() if o.w > 0]
        self.opnames = names
        w = weights or {}
        self.opweights = [OPS[n].w * w.get(n, w.get("*", 1.0)) * _tagw(OPS[n], w) for n in names]

    # -- helpers for op generators
    def new_shape(self):
        return rand_shape(self.rng, self.max_ndim, self.max_extent, max_size=self.max_size)

    # -- variables
    def _add(self, opname, in_ids, p, npv, dav, inx, depth, eps=0.0):
        mag = absmax(npv)
        if inx > 0:
            # absolute error is inherited: a bounded function (sin, tanh, a cancelling sum) of a large
            # inexact input is only as accurate as eps * |input|, so carry the history's magnitude
            mag = max([mag] + [self.vars[i].mag for i in in_ids if self.vars[i].inx > 0])
        v = Var(len(self.vars), npv, dav, inx=inx, mag=mag, depth=depth, eps=eps)
        if isinstance(npv, np.ma.MaskedArray):
            # a masked value assigned into an unmasked array: terminal (only some blocks become masked,
            # what further operations do with such mixed blocks is outside the properties)
            v.flags.add("masked")
        self.vars.append(v)
        self.steps.append({"op": opname, "in": list(in_ids), "p": p})
        return v

    def apply(self, opname, in_ids, p, record_refusal=True):
        """Execute one step on both sides. Returns Var, or None if not applicable/refused."""
        op = OPS[opname]
        ins = [self.vars[i] for i in in_ids]
        try:
            with np.errstate(all="ignore"):
                npv = op.npf(p, *[v.np for v in ins])
        except Exception:
            return None  # NumPy refuses: op not applicable
        npv = np.asarray(npv) if not isinstance(npv, np.ma.MaskedArray) else npv
        if npv.size > self.max_size * 4:
            return None
        if npv.dtype.kind in "fc" and npv.size and not np.isfinite(npv[np.isfinite(npv)] if False else npv).any() and False:
            return None
        inc = op.inexact(p, ins, npv) if op.inexact else 0
        if inc == 0 and complex_inexact(op, p, ins, npv):
            inc = 1
        base = max([v.inx for v in ins], default=0)
        inx = base + inc + (1 if base > 0 and npv.dtype.kind in "fc" else 0)
        # coarsest machine epsilon of any inexact computation in this value's history
        eps = max([v.eps for v in ins], default=0.0)
        if inc > 0:
            fl = [v.np.dtype for v in ins if v.np.dtype.kind in "fc"] + ([npv.dtype] if npv.dtype.kind in "fc" else [])
            if fl:
                eps = max([eps] + [float(np.finfo(d).eps) for d in fl])
        if npv.dtype.kind not in "fc":
            # an inexact input feeding an exact-typed output (comparison, argmax, floor->int cast)
            # could flip discretely: do not generate such steps
            if base > 0:
                return None
            inx = 0
        dav = None
        if self.build:
            self.attempted[opname] += 1
            try:
                dav = op.daf(p, *[v.da for v in ins])
            except Exception as e:
                if record_refusal:
                    self.refused[(opname, type(e).__name__)] += 1
                    self.last_refusal = (opname, p, e)
                return None
        depth = 1 + max([v.depth for v in ins], default=0)
        return self._add(opname, in_ids, p, npv, dav, inx, depth, eps)

    def add_leaf(self, opname=None, p=None):
        opname = opname or self.rng.choice(LEAF_OPS)
        op = OPS[opname]
        for _ in range(10):
            try:
                pp = p if p is not None else op.gen(self, [])
            except Skip:
                continue
            v = self.apply(opname, [], pp)
            if v is not None:
                return v
        return None

    def add_leaf_like(self, ref, mode=None):
        """A from_array leaf whose shape is compatible (equal / broadcastable / matmul-able) with ref."""
        rng = self.rng
        mode = mode or rng.choice(["same", "same", "bcast", "lower"])
        shp = list(ref.shape)
        if mode == "bcast" and shp:
            shp = [1 if rng.random() < 0.4 else s for s in shp]
        elif mode == "lower" and shp:
            shp = shp[rng.randint(1, len(shp)) :] if len(shp) > 1 else shp
        dtype = rng.choice(self.dtypes) if rng.random() < 0.5 else str(ref.dtype) if str(ref.dtype) in ("float64", "int64") else rng.choice(self.dtypes)
        dtype = np.dtype(dtype).str.lstrip("<|=")
        if dtype == "b1":
            dtype = "bool"
        p = {"shape": shp, "dtype": dtype, "chunks": [list(c) for c in rand_chunks(rng, shp)], "vals": "perm", "seed": rng.randrange(10**6)}
        return self.apply("from_array", [], p)

    def pick(self, k, usable=None):
        cands = [v for v in self.vars if not (v.flags & {"unknown", "masked"})] if usable is None else usable
        if not cands:
            return None
        # bias toward recent variables but allow any (sharing)
        out = []
        for _ in range(k):
            if self.rng.random() < 0.6:
                out.append(cands[-1 - min(len(cands) - 1, int(self.rng.expovariate(0.8)))])
            else:
                out.append(self.rng.choice(cands))
        return out

    def step(self, opname=None, tries=12):
        """Append one random non-leaf step. Returns the new Var or None."""
        for _ in range(tries):
            name = opname or self.rng.choices(self.opnames, self.opweights)[0]
            op = OPS[name]
            ins = self.pick(op.arity)
            if ins is None:
                return None
            if op.arity >= 2 and self.rng.random() < 0.6:
                # make a compatible partner instead of hoping for one
                ref = ins[0]
                for j in range(1, op.arity):
                    partner = self.add_leaf_like(ref)
                    if partner is not None:
                        ins[j] = partner
            try:
                p = op.gen(self, ins)
            except Skip:
                continue
            v = self.apply(name, [x.id for x in ins], p)
            if v is not None:
                return v
        return None

    def adopt(self, like, dav, tag="adopt"):
        """Register collection `dav` as a new variable denoting the same array as `like`
        (a persisted / optimized / unpickled copy): follow-on ops can then be generated on it."""
        v = Var(len(self.vars), like.np, dav, inx=like.inx, mag=like.mag, flags=like.flags, depth=like.depth, eps=like.eps)
        self.vars.append(v)
        self.steps.append({"op": "from_array", "in": [], "p": {"adopted": tag, "like": like.id}})
        return v

    def step_on(self, var, opname=None, tries=20, unary_only=False):
        """Append one random step whose first input is `var`. Returns the new Var or None."""
        for _ in range(tries):
            name = opname or self.rng.choices(self.opnames, self.opweights)[0]
            op = OPS[name]
            if op.arity == 0 or (unary_only and op.arity != 1):
                continue
            ins = [var]
            ok = True
            for j in range(1, op.arity):
                partner = self.add_leaf_like(var) if self.rng.random() < 0.7 else None
                if partner is None:
                    cands = self.pick(1)
                    partner = cands[0] if cands else None
                if partner is None:
                    ok = False
                    break
                ins.append(partner)
            if not ok:
                continue
            if op.arity >= 2 and self.rng.random() < 0.3:
                ins[0], ins[1] = ins[1], ins[0]
            try:
                p = op.gen(self, ins)
            except Skip:
                continue
            v = self.apply(name, [x.id for x in ins], p)
            if v is not None:
                return v
        return None

    def grow(self, nsteps, nleaves=None):
        nleaves = nleaves or self.rng.choice([1, 1, 2, 2, 3])
        for _ in range(nleaves):
            self.add_leaf()
        if not self.vars:
            return self
        for _ in range(nsteps):
            self.step()
        return self

    def outputs(self, k=1):
        """The last non-leaf variables (or the last leaf if nothing else)."""
        non_leaf = [v for v, s in zip(self.vars, self.steps) if s["in"]]
        pool = non_leaf or self.vars
        return pool[-k:]

    # -- serialization
    def to_json(self):
        return {"steps": self.steps}

    @classmethod
    def replay(cls, steps, upto=None, **kw):
        import random

        g = cls(random.Random(0), **kw)
        g.max_size = 10**9
        for s in steps[: upto if upto is not None else len(steps)]:
            v = g.apply(s["op"], s["in"], s["p"])
            if v is None:
                raise ReplayRefused(f"step {len(g.steps)} ({s['op']}) not applicable or refused on replay: {getattr(g, 'last_refusal', None)}")
        return g

    def closure(self, var_id):
        """Steps needed for var_id, renumbered (a minimal sub-program)."""
        needed = set()
        stack = [var_id]
        while stack:
            i = stack.pop()
            if i in needed:
                continue
            needed.add(i)
            stack.extend(self.steps[i]["in"])
        order = sorted(needed)
        remap = {old: new for new, old in enumerate(order)}
        return [{"op": self.steps[i]["op"], "in": [remap[j] for j in self.steps[i]["in"]], "p": self.steps[i]["p"]} for i in order]

    def closure_multi(self, var_ids):
        """Steps needed for several variables, renumbered. Returns (steps, {old id: new id})."""
        needed = set()
        stack = list(var_ids)
        while stack:
            i = stack.pop()
            if i in needed:
                continue
            needed.add(i)
            stack.extend(self.steps[i]["in"])
        order = sorted(needed)
        remap = {old: new for new, old in enumerate(order)}
        steps = [{"op": self.steps[i]["op"], "in": [remap[j] for j in self.steps[i]["in"]], "p": self.steps[i]["p"]} for i in order]
        return steps, remap

    def signature(self, var_id):
        """Op-sequence signature of the sub-program (for distinctness counting)."""
        return [(s["op"], s["p"].get("fn") if isinstance(s["p"], dict) else None) for s in self.closure(var_id)]


class ReplayRefused(Exception):
    pass


def _tagw(op, w):
    m = 1.0
    for t in op.tags:
        if "#" + t in w:
            m *= w["#" + t]
    return m


class G_for_index:
    """Minimal adaptor so the index generators can be used without a Prog."""

    def __init__(self, rng):
        self.rng = rng
