"""Child interpreter for C07: rebuilds programs from JSON (or unpickles shipped collections) and reports names/keys/values."""

from __future__ import annotations

import json
import pickle
import sys
import warnings


def report_collection(x, compute=True):
    from dask.core import flatten

    from vf.common import h64

    rep = {"name": x.name, "chunks": repr(x.chunks), "dtype": str(x.dtype), "keys": h64(repr(list(flatten(x.__dask_keys__()))))}
    try:
        rep["frisky_keys"] = h64(repr(x.__frisky_output_keys__()))
    except NotImplementedError:
        rep["frisky_keys"] = "declined"
    except Exception as e:
        rep["frisky_keys"] = f"raises:{type(e).__name__}"
    try:
        o = x.optimize()
        g = o.__dask_graph__()
        ks = sorted(str(k) for k in g)
        rep["opt_keys"] = h64(repr(ks))
        rep["opt_key_names"] = sorted({(k[0] if isinstance(k, tuple) else k) if isinstance((k[0] if isinstance(k, tuple) else k), str) else str(k) for k in g})
        rep["opt_name"] = o.name
    except Exception as e:
        rep["opt_keys"] = f"raises:{type(e).__name__}"
        rep["opt_key_names"] = []
        rep["opt_name"] = None
    if compute:
        try:
            import numpy as np

            v = x.compute()
            a = np.ascontiguousarray(np.ma.getdata(v) if isinstance(v, np.ma.MaskedArray) else np.asarray(v))
            rep["value"] = h64(a.tobytes() + repr((a.shape, str(a.dtype))).encode())
        except Exception as e:
            rep["value"] = f"raises:{type(e).__name__}:{str(e)[:80]}"
    return rep


def build_reports(programs):
    from vf.gen import Prog, ReplayRefused

    out = []
    for prog in programs:
        try:
            g = Prog.replay(prog["steps"])
        except ReplayRefused as e:
            out.append({"refused": str(e)[:200]})
            continue
        except Exception as e:
            out.append({"refused": f"{type(e).__name__}: {str(e)[:200]}"})
            continue
        names = [v.da.name if v.da is not None else None for v in g.vars]
        rep = report_collection(g.vars[-1].da)
        rep["var_names"] = names
        out.append(rep)
    return out


def main():
    warnings.simplefilter("ignore")
    import numpy as np

    np.seterr(all="ignore")
    import dask

    dask.config.set(scheduler="sync")
    mode, path, outp = sys.argv[1], sys.argv[2], sys.argv[3]
    if mode == "build":
        programs = json.load(open(path))
        res = build_reports(programs)
    elif mode == "unpickle":
        blobs = pickle.load(open(path, "rb"))
        res = []
        for b in blobs:
            if b is None:
                res.append({"refused": "not pickled"})
                continue
            try:
                x = pickle.loads(b)
                res.append(report_collection(x))
            except Exception as e:
                res.append({"unpickle_raises": f"{type(e).__name__}: {str(e)[:200]}"})
    else:
        raise SystemExit(2)
    json.dump(res, open(outp, "w"))


if __name__ == "__main__":
    main()
