"""K - runtime contracts (icontract) attached to the *real* helper functions.

Conditions are named functions that compare the call with a brute-force reference,
record any disagreement in LOG and return True (so the observed program continues
undisturbed).  `install(groups)` wraps the functions in their defining module and
re-binds every `from m import f` copy in already-imported dask_array modules.
Evaluation counters per function make "zero evaluations" visible (inconclusive).
"""

from __future__ import annotations

import math
import sys
from collections import Counter
from numbers import Integral

import numpy as np

from vf.common import ensure_deps

ensure_deps()
import icontract  # noqa: E402


class ContractBroken(Exception):
    pass


class Log:
    def __init__(self):
        self.evals = Counter()
        self.viol = []
        self.mechs = Counter()
        self.obs = Counter()
        self.maxima = {}
        self.enabled = True

    def bad(self, fn, mech, msg, call):
        self.mechs[mech] += 1
        if self.mechs[mech] <= 3 and len(self.viol) < 40:
            self.viol.append({"fn": fn, "mech": mech, "msg": msg, "call": call})

    def drain(self):
        v, self.viol = self.viol, []
        return v

    def mx(self, k, v):
        if k not in self.maxima or v > self.maxima[k]:
            self.maxima[k] = v


LOG = Log()
_INSTALLED = set()


def rebind(orig, new):
    n = 0
    for name, mod in list(sys.modules.items()):
        if mod is None or not name.startswith("dask_array"):
            continue
        d = getattr(mod, "__dict__", None)
        if not d:
            continue
        for k, v in list(d.items()):
            if v is orig:
                d[k] = new
                n += 1
    return n


def attach(modname, fname, cond):
    import importlib

    mod = importlib.import_module(modname)
    orig = getattr(mod, fname)
    if getattr(orig, "__vf_contract__", False):
        return
    wrapped = icontract.ensure(cond, error=ContractBroken)(orig)
    wrapped.__vf_contract__ = True
    wrapped.__vf_orig__ = orig
    setattr(mod, fname, wrapped)
    rebind(orig, wrapped)


def enc(x):
    if isinstance(x, slice):
        return ["s", x.start, x.stop, x.step]
    if isinstance(x, tuple):
        return [enc(e) for e in x]
    if isinstance(x, list):
        return ["l", [enc(e) for e in x]]
    if x is None:
        return "N"
    if isinstance(x, (np.integer,)):
        return int(x)
    if isinstance(x, float) and math.isnan(x):
        return "nan"
    if isinstance(x, np.ndarray):
        return ["a", x.tolist()]
    return x


def dec(x):
    if isinstance(x, list) and x and x[0] == "s" and len(x) == 4:
        return slice(x[1], x[2], x[3])
    if isinstance(x, list) and x and x[0] == "l" and len(x) == 2 and isinstance(x[1], list):
        return [dec(e) for e in x[1]]
    if isinstance(x, list) and x and x[0] == "a" and len(x) == 2:
        return np.asarray(x[1])
    if isinstance(x, list):
        return tuple(dec(e) for e in x)
    if x == "N":
        return None
    if x == "nan":
        return float("nan")
    return x


def isnan(x):
    return isinstance(x, float) and math.isnan(x)


# ==========================================================================
# C13: slice algebra
# ==========================================================================


def post_normalize_slice(idx, dim, result):
    if not LOG.enabled:
        return True
    LOG.evals["normalize_slice"] += 1
    if isinstance(idx, slice) and not isnan(dim):
        n = int(dim)
        try:
            exp = list(range(n)[idx])
        except Exception:
            return True
        if not isinstance(result, slice):
            LOG.bad("normalize_slice", "normalize_slice:type", f"normalize_slice({idx},{dim}) -> {result!r}", [enc(idx), dim])
            return True
        got = list(range(n)[result])
        if exp != got:
            mech = "normalize_slice:negstep_start_sentinel" if (result.step or 1) < 0 and result.start is not None and result.start < 0 and not exp else "normalize_slice:positions"
            LOG.bad("normalize_slice", mech, f"normalize_slice({idx},{dim}) -> {result} selects {got[:8]}, index selects {exp[:8]}", [enc(idx), dim])
    return True


FUSE_NS = (0, 1, 2, 3, 4, 5, 7, 10, 13)


def _apply(seq, ix):
    if isinstance(ix, list):
        return [seq[i] for i in ix]
    return seq[ix]


def post_fuse_slice(a, b, result):
    if not LOG.enabled:
        return True
    LOG.evals["fuse_slice"] += 1
    one_d = lambda x: isinstance(x, (slice, Integral, list)) and not isinstance(x, bool)  # noqa: E731
    if one_d(a) and one_d(b) and not (isinstance(a, list) and isinstance(b, list)):
        if isinstance(a, Integral):
            return True
        for n in FUSE_NS:
            seq = list(range(n))
            try:
                exp = _apply(_apply(seq, a), b)
            except (IndexError, TypeError):
                continue
            try:
                got = _apply(seq, result)
            except (IndexError, TypeError) as e:
                LOG.bad("fuse_slice", "fuse_slice:raises", f"fuse_slice({a},{b}) -> {result!r} unusable on n={n}: {e}", [enc(a), enc(b), n])
                break
            if exp != got:
                LOG.bad("fuse_slice", "fuse_slice:positions", f"fuse_slice({a},{b}) -> {result}; on range({n}) sequential={exp} fused={got}", [enc(a), enc(b), n])
                break
        return True
    if isinstance(a, tuple) and isinstance(b, tuple):
        if sum(isinstance(e, list) for e in a + b) > 1:
            return True  # several lists pair up pointwise in NumPy: outside the basic-index domain
        LOG.evals["fuse_slice_tuple"] += 1
        # reference on small n-d arrays with distinct values
        na = sum(1 for e in a if e is not None)
        for ext in (4, 6, 9):
            arr = np.arange(ext ** max(na, 1)).reshape((ext,) * max(na, 1)) if na <= 3 else None
            if arr is None:
                return True
            try:
                exp = _orth_index(_orth_index(arr, a), b)
            except (IndexError, ValueError, TypeError):
                continue
            try:
                got = _orth_index(arr, result)
            except (IndexError, ValueError, TypeError) as e:
                LOG.bad("fuse_slice", "fuse_slice:tuple_raises", f"fuse_slice({a},{b}) -> {result!r} unusable: {e}", [enc(a), enc(b), ext])
                break
            if exp.shape != got.shape or not np.array_equal(exp, got):
                LOG.bad("fuse_slice", "fuse_slice:tuple_positions", f"fuse_slice({a},{b}) -> {result}; shapes {exp.shape} vs {got.shape}", [enc(a), enc(b), ext])
                break
    return True


def _orth_index(arr, idx):
    """Index with dask's semantics: integers are *basic* indices (they never join a list
    index in NumPy's advanced-index broadcasting), so apply them as length-1 slices and
    squeeze afterwards; at most one list stays and keeps its position."""
    idx = tuple(idx)
    idx2 = []
    squeeze = []
    out_ax = 0
    for e in idx:
        if e is None:
            idx2.append(None)
            out_ax += 1
        elif isinstance(e, Integral):
            n = arr.shape[len([x for x in idx2 if x is not None])]
            if not -n <= e < n:
                raise IndexError(e)
            e = e % n
            idx2.append(slice(e, e + 1))
            squeeze.append(out_ax)
            out_ax += 1
        else:
            idx2.append(e)
            out_ax += 1
    out = arr[tuple(idx2)]
    return np.squeeze(out, axis=tuple(squeeze)) if squeeze else out


def post_compose_slices(outer_slice, inner_slice, dim_size, result):
    if not LOG.enabled:
        return True
    LOG.evals["_compose_slices"] += 1
    if isnan(dim_size):
        return True
    n = int(dim_size)
    seq = range(n)
    exp = list(seq[outer_slice][inner_slice])
    got = list(seq[result])
    if exp != got:
        mech = "_compose_slices:positions"
        LOG.bad("_compose_slices", mech, f"_compose_slices({outer_slice},{inner_slice},{n}) -> {result}: expected {exp[:8]} got {got[:8]}", [enc(outer_slice), enc(inner_slice), n])
    elif exp:
        # a stop that is negative wraps around when handed to an array-like
        if result.stop is not None and result.stop < 0 and (result.step or 1) > 0:
            LOG.bad("_compose_slices", "_compose_slices:negative_stop", f"_compose_slices({outer_slice},{inner_slice},{n}) -> {result}", [enc(outer_slice), enc(inner_slice), n])
    return True


def _traversal(result, index):
    keys = sorted(result)
    if isinstance(index, slice) and index.step is not None and index.step < 0:
        keys.reverse()
    return keys


def post_slice_1d(dim_shape, lengths, index, result):
    if not LOG.enabled:
        return True
    LOG.evals["_slice_1d"] += 1
    if isnan(dim_shape) or any(isnan(x) for x in lengths):
        return True
    n = int(dim_shape)
    lengths = [int(x) for x in lengths]
    offs = [0]
    for x in lengths:
        offs.append(offs[-1] + x)
    if isinstance(index, Integral):
        if not (0 <= index < n):
            return True
        (blk, ind), = result.items() if len(result) == 1 else ((None, None),)
        if blk is None or not (0 <= blk < len(lengths)) or not (0 <= ind < lengths[blk]) or offs[blk] + ind != index:
            LOG.bad("_slice_1d", "_slice_1d:int", f"_slice_1d({n},{lengths},{index}) -> {result}", [n, lengths, enc(index)])
        return True
    if not isinstance(index, slice):
        return True
    exp = list(range(n)[index])
    got = []
    for blk in _traversal(result, index):
        piece = result[blk]
        if not (0 <= blk < len(lengths)):
            LOG.bad("_slice_1d", "_slice_1d:block_out_of_range", f"_slice_1d({n},{lengths},{index}) -> {result}", [n, lengths, enc(index)])
            return True
        if isinstance(piece, slice):
            sel = list(range(lengths[blk])[piece])
            st, sp, stp = piece.start, piece.stop, piece.step
            L = lengths[blk]
            if piece != slice(None, None, None):
                oob = False
                if (stp or 1) > 0:
                    oob = (st is not None and not (-L <= st <= L)) or (sp is not None and not (-L - 1 <= sp <= L))
                else:
                    oob = (st is not None and not (-L - 1 <= st <= L)) or (sp is not None and not (-L - 1 <= sp <= L))
                if oob:
                    LOG.obs["_slice_1d:piece_bounds_beyond_block"] += 1
        else:
            sel = [int(piece)]
        if not sel and exp and lengths[blk] > 0:
            # "If the slice won't return any elements in the block, that block will not be in the
            # output": an empty piece becomes a zero-width block that consumers (reshape) cannot plan.
            # (A block that was zero-width before the slice may be listed - the full-slice fast path keeps
            # the layout as it is; no new empty block is created.)
            LOG.bad("_slice_1d", "_slice_1d:empty_piece", f"_slice_1d({n},{lengths},{index}) -> {result}: block {blk} contributes nothing but is listed", [n, lengths, enc(index)])
            return True
        got.extend(offs[blk] + i for i in sel)
    if exp != got:
        LOG.bad("_slice_1d", "_slice_1d:positions", f"_slice_1d({n},{lengths},{index}) -> {result}: plan selects {got[:10]}, index selects {exp[:10]}", [n, lengths, enc(index)])
    return True


def post_new_blockdim(dim_shape, lengths, index, result):
    if not LOG.enabled:
        return True
    LOG.evals["new_blockdim"] += 1
    if isnan(dim_shape) or any(isnan(x) for x in lengths):
        return True
    n = int(dim_shape)
    lengths = [int(x) for x in lengths]
    if isinstance(index, list):
        if list(result) != [len(index)]:
            LOG.bad("new_blockdim", "new_blockdim:list", f"new_blockdim({n},{lengths},{index}) -> {result}", [n, lengths, enc(index)])
        return True
    if not isinstance(index, slice):
        return True
    sel = list(range(n)[index])
    offs = [0]
    for x in lengths:
        offs.append(offs[-1] + x)
    counts = []
    order = range(len(lengths)) if (index.step or 1) > 0 else range(len(lengths) - 1, -1, -1)
    for b in order:
        c = sum(1 for p in sel if offs[b] <= p < offs[b + 1])
        counts.append(c)
    res = [int(x) for x in result]
    if index == slice(None, None, None):
        ok = res == lengths
    else:
        ok = [c for c in counts if c] == [r for r in res if r] and sum(res) == len(sel)
    if not ok:
        LOG.bad("new_blockdim", "new_blockdim:lengths", f"new_blockdim({n},{lengths},{index}) -> {res}; per-block counts {counts}", [n, lengths, enc(index)])
    return True


def post_compute_sliced_chunks(chunks, slc, dim_size, result):
    if not LOG.enabled:
        return True
    LOG.evals["_compute_sliced_chunks"] += 1
    if isnan(dim_size) or any(isnan(x) for x in chunks):
        return True
    n = int(dim_size)
    sel = list(range(n)[slc])
    res = [int(x) for x in result]
    if sum(res) != len(sel) or not res or any(r < 0 for r in res):
        LOG.bad("_compute_sliced_chunks", "_compute_sliced_chunks:sum", f"_compute_sliced_chunks({chunks},{slc},{n}) -> {result}; {len(sel)} selected", [list(chunks), enc(slc), n])
        return True
    start, stop, step = slc.indices(n)
    if step == 1 and sel:
        offs = [0]
        for x in chunks:
            offs.append(offs[-1] + int(x))
        counts = [sum(1 for p in sel if offs[b] <= p < offs[b + 1]) for b in range(len(chunks))]
        if [c for c in counts if c] != [r for r in res if r]:
            LOG.bad("_compute_sliced_chunks", "_compute_sliced_chunks:layout", f"_compute_sliced_chunks({chunks},{slc},{n}) -> {result}; per-chunk {counts}", [list(chunks), enc(slc), n])
    return True


def post_posify_index(shape, ind, result):
    if not LOG.enabled:
        return True
    LOG.evals["posify_index"] += 1
    if isinstance(ind, Integral) and not isinstance(shape, tuple) and not isnan(shape):
        n = int(shape)
        if -n <= ind < n:
            if not (0 <= result < n) or range(n)[ind] != result:
                LOG.bad("posify_index", "posify_index:int", f"posify_index({shape},{ind}) -> {result}", [shape, enc(ind)])
    elif isinstance(ind, (list, np.ndarray)) and not isinstance(shape, tuple) and not isnan(shape):
        n = int(shape)
        a = np.asarray(ind)
        if a.dtype.kind in "iu" and a.size and (a >= -n).all() and (a < n).all():
            r = np.asarray(result)
            if r.shape != a.shape or not np.array_equal(r, a % n):
                LOG.bad("posify_index", "posify_index:array", f"posify_index({shape},{ind}) -> {result}", [shape, enc(ind)])
    return True


SLICING = [
    ("dask_array.slicing._utils", "normalize_slice", post_normalize_slice),
    ("dask_array.slicing._utils", "fuse_slice", post_fuse_slice),
    ("dask_array.slicing._utils", "_slice_1d", post_slice_1d),
    ("dask_array.slicing._utils", "new_blockdim", post_new_blockdim),
    ("dask_array.slicing._utils", "posify_index", post_posify_index),
    ("dask_array.slicing._basic", "_compose_slices", post_compose_slices),
    ("dask_array.slicing._basic", "_compute_sliced_chunks", post_compute_sliced_chunks),
]

# ==========================================================================
# C15: rechunk planning
# ==========================================================================


def _known(chunks):
    return all(not isnan(c) for dim in chunks for c in dim)


def _sums(chunks):
    return [sum(d) if not any(isnan(c) for c in d) else None for d in chunks]


def _largest(chunks):
    out = 1
    for d in chunks:
        out *= max(d) if d else 0
    return out


def _valid_chunking(step, sums):
    if not isinstance(step, tuple) or len(step) != len(sums):
        return False
    for d, s in zip(step, sums):
        if not isinstance(d, tuple) or (len(d) == 0):
            return False
        if s is None:
            continue
        if any(isnan(c) or c < 0 or int(c) != c for c in d):
            return False
        if sum(d) != s:
            return False
    return True


def post_plan_rechunk(old_chunks, new_chunks, itemsize, threshold, block_size_limit, result):
    if not LOG.enabled:
        return True
    LOG.evals["plan_rechunk"] += 1
    from dask import config
    from dask.utils import parse_bytes

    call = [enc(old_chunks), enc(new_chunks), itemsize, threshold, block_size_limit, {k: config.get(k, None) for k in ("array.rechunk.threshold", "array.chunk-size", "array.rechunk.degree-limit")}]
    if not isinstance(result, list) or not result:
        LOG.bad("plan_rechunk", "plan_rechunk:not_a_list", f"plan_rechunk -> {result!r}", call)
        return True
    sums = _sums(old_chunks)
    for st in result:
        if not _valid_chunking(st, sums):
            LOG.bad("plan_rechunk", "plan_rechunk:invalid_step", f"plan {result} for {old_chunks}->{new_chunks}: step {st} is not a chunking of the shape", call)
            return True
    if result[-1] != new_chunks:
        LOG.bad("plan_rechunk", "plan_rechunk:last_step", f"plan {result} does not end in {new_chunks}", call)
        return True
    LOG.obs[f"plan_steps={min(len(result), 6)}"] += 1
    if not _known(old_chunks) or not all(new_chunks) or len(new_chunks) == 0:
        return True
    limit = block_size_limit or config.get("array.chunk-size")
    if isinstance(limit, str):
        limit = parse_bytes(limit)
    budget = max(limit / itemsize, _largest(old_chunks), _largest(new_chunks))
    worst = max(_largest(st) for st in result)
    LOG.mx("plan_rechunk:max_block_over_budget", worst / budget if budget else 0.0)
    if worst > budget:
        bad = [st for st in result if _largest(st) > budget]
        # which pass inserted the offending step?
        mech = "plan_rechunk:block_budget"
        try:
            with config.set({"array.rechunk.degree-limit": 10**9}):
                LOG.enabled = False
                try:
                    from dask_array import _rechunk

                    base = _rechunk.plan_rechunk(old_chunks, new_chunks, itemsize, threshold, block_size_limit)
                finally:
                    LOG.enabled = True
            if all(_largest(st) <= budget for st in base) and all(st not in base for st in bad):
                mech = "plan_rechunk:block_budget:degree_pass"
        except Exception:
            pass
        LOG.bad("plan_rechunk", mech, f"plan {result} for {old_chunks}->{new_chunks} itemsize={itemsize}: largest block {worst} > budget {budget}", call)
    return True


def post_old_to_new(old_chunks, new_chunks, result):
    if not LOG.enabled:
        return True
    LOG.evals["old_to_new"] += 1
    call = [enc(old_chunks), enc(new_chunks)]
    if len(result) != len(old_chunks):
        LOG.bad("old_to_new", "old_to_new:ndim", f"old_to_new -> {len(result)} axes", call)
        return True
    for ax, (old, new, per_new) in enumerate(zip(old_chunks, new_chunks, result)):
        if any(isnan(c) for c in old):
            continue
        if len(per_new) != len(new):
            LOG.bad("old_to_new", "old_to_new:count", f"axis {ax}: {len(per_new)} entries for {len(new)} new blocks ({old}->{new})", call)
            return True
        ooffs = [0]
        for c in old:
            ooffs.append(ooffs[-1] + c)
        pos = 0
        for j, pieces in enumerate(per_new):
            want_lo, want_hi = pos, pos + new[j]
            cur = want_lo
            if not pieces and new[j] != 0:
                LOG.bad("old_to_new", "old_to_new:uncovered", f"axis {ax}: new block {j} has no pieces ({old}->{new})", call)
                return True
            for oi, sl in pieces:
                L = old[oi]
                st, sp = sl.start or 0, sl.stop if sl.stop is not None else L
                if not (0 <= st <= sp <= L) or (sl.step not in (None, 1)):
                    LOG.bad("old_to_new", "old_to_new:out_of_bounds", f"axis {ax}: piece ({oi},{sl}) outside old block of length {L} ({old}->{new})", call)
                    return True
                if sp > st:
                    if ooffs[oi] + st != cur:
                        LOG.bad("old_to_new", "old_to_new:not_contiguous", f"axis {ax}: new block {j} pieces {pieces} do not tile [{want_lo},{want_hi}) ({old}->{new})", call)
                        return True
                    cur = ooffs[oi] + sp
            if cur != want_hi:
                LOG.bad("old_to_new", "old_to_new:coverage", f"axis {ax}: new block {j} pieces {pieces} cover [{want_lo},{cur}) not [{want_lo},{want_hi}) ({old}->{new})", call)
                return True
            pos = want_hi
    return True


def post_merge_to_number(desired_chunks, max_number, result):
    if not LOG.enabled:
        return True
    LOG.evals["merge_to_number"] += 1
    call = [list(desired_chunks), max_number]
    if sum(result) != sum(desired_chunks):
        LOG.bad("merge_to_number", "merge_to_number:sum", f"merge_to_number({desired_chunks},{max_number}) -> {result}", call)
    elif max_number >= 1 and len(result) > max(max_number, 1) and len(desired_chunks) > max_number and all(c > 0 for c in desired_chunks):
        LOG.bad("merge_to_number", "merge_to_number:count", f"merge_to_number({desired_chunks},{max_number}) -> {result} has {len(result)} chunks", call)
    else:
        # boundaries of the result must be a subset of the input boundaries (pure merge)
        def bounds(c):
            out, s = set(), 0
            for x in c:
                s += x
                out.add(s)
            return out

        if not bounds(result) <= bounds(desired_chunks):
            LOG.bad("merge_to_number", "merge_to_number:not_a_merge", f"merge_to_number({desired_chunks},{max_number}) -> {result}", call)
    return True


def post_divide_to_width(desired_chunks, max_width, result):
    if not LOG.enabled:
        return True
    LOG.evals["divide_to_width"] += 1
    call = [list(desired_chunks), max_width]
    if sum(result) != sum(desired_chunks) or (result and max(result) > max_width):
        LOG.bad("divide_to_width", "divide_to_width:bounds", f"divide_to_width({desired_chunks},{max_width}) -> {result}", call)
    return True


def post_find_merge_rechunk(old_chunks, new_chunks, block_size_limit, result):
    if not LOG.enabled:
        return True
    LOG.evals["find_merge_rechunk"] += 1
    chunks, _hit = result
    call = [enc(old_chunks), enc(new_chunks), block_size_limit]
    if not _valid_chunking(chunks, _sums(old_chunks)):
        LOG.bad("find_merge_rechunk", "find_merge_rechunk:invalid", f"find_merge_rechunk -> {chunks}", call)
    elif _largest(chunks) > block_size_limit:
        LOG.bad("find_merge_rechunk", "find_merge_rechunk:budget", f"find_merge_rechunk({old_chunks},{new_chunks},{block_size_limit}) -> {chunks} largest {_largest(chunks)}", call)
    return True


def post_find_split_rechunk(old_chunks, new_chunks, graph_size_limit, result):
    if not LOG.enabled:
        return True
    LOG.evals["find_split_rechunk"] += 1
    if not _valid_chunking(result, _sums(old_chunks)):
        LOG.bad("find_split_rechunk", "find_split_rechunk:invalid", f"find_split_rechunk({old_chunks},{new_chunks}) -> {result}", [enc(old_chunks), enc(new_chunks), graph_size_limit])
    return True


def post_bound_degree(old_chunks, new_chunks, degree_limit, result):
    if not LOG.enabled:
        return True
    LOG.evals["_bound_degree"] += 1
    call = [enc(old_chunks), enc(new_chunks), degree_limit]
    if not result or result[-1] != new_chunks:
        LOG.bad("_bound_degree", "_bound_degree:last", f"_bound_degree -> {result}", call)
        return True
    sums = _sums(old_chunks)
    for st in result:
        if not _valid_chunking(st, sums):
            LOG.bad("_bound_degree", "_bound_degree:invalid_step", f"_bound_degree({old_chunks},{new_chunks},{degree_limit}) -> step {st}", call)
            break
    if len(result) > 1:
        LOG.obs["degree_pass_added_steps"] += 1
    return True


RECHUNK = [
    ("dask_array._rechunk", "plan_rechunk", post_plan_rechunk),
    ("dask_array._rechunk", "old_to_new", post_old_to_new),
    ("dask_array._rechunk", "merge_to_number", post_merge_to_number),
    ("dask_array._rechunk", "divide_to_width", post_divide_to_width),
    ("dask_array._rechunk", "find_merge_rechunk", post_find_merge_rechunk),
    ("dask_array._rechunk", "find_split_rechunk", post_find_split_rechunk),
    ("dask_array._rechunk", "_bound_degree", post_bound_degree),
]

# ==========================================================================
# C16: normalize_chunks
# ==========================================================================


def post_normalize_chunks(chunks, shape, limit, dtype, previous_chunks, result):
    if not LOG.enabled:
        return True
    LOG.evals["normalize_chunks"] += 1
    from dask import config
    from dask.utils import parse_bytes

    call = [enc(chunks) if not isinstance(chunks, dict) else {str(k): enc(v) for k, v in chunks.items()}, enc(shape), limit, str(dtype) if dtype is not None else None, enc(previous_chunks), {k: config.get(k, None) for k in ("array.chunk-size", "array.chunk-size-tolerance")}]

    def bad(mech, msg):
        LOG.bad("normalize_chunks", mech, f"normalize_chunks({chunks!r}, shape={shape}, limit={limit}, dtype={dtype}, previous_chunks={previous_chunks}) -> {result}: {msg}", call)

    if not isinstance(result, tuple) or any(not isinstance(d, tuple) for d in result):
        bad("normalize_chunks:type", "not a tuple of tuples")
        return True
    if shape is None:
        return True
    shape = tuple(shape)
    if len(result) != len(shape):
        bad("normalize_chunks:ndim", f"{len(result)} axes for shape {shape}")
        return True
    spec = chunks
    if isinstance(spec, list):
        spec = tuple(spec)
    if isinstance(spec, np.ndarray):
        spec = tuple(spec.tolist())
    if isinstance(spec, (int, str)) and not isinstance(spec, bool):
        spec = (spec,) * len(shape)
    if isinstance(spec, dict):
        spec = tuple(spec.get(i, None) for i in range(len(shape)))
    if len(shape) == 1 and isinstance(spec, tuple) and len(spec) > 1 and all(isinstance(c, (int, float)) for c in spec):
        spec = (spec,)
    auto_axes = []
    for ax, (d, s) in enumerate(zip(result, shape)):
        if len(d) == 0:
            bad("normalize_chunks:empty_axis", f"axis {ax} has no chunks")
            return True
        if isnan(s) or any(isnan(c) for c in d):
            continue
        if any((not isinstance(c, (int, np.integer))) or c < 0 for c in d):
            bad("normalize_chunks:negative_or_nonint", f"axis {ax}: {d}")
            return True
        if sum(d) != s:
            bad("normalize_chunks:sum", f"axis {ax}: sum {sum(d)} != {s}")
            return True
        sp = spec[ax] if isinstance(spec, tuple) and ax < len(spec) else None
        explicit = isinstance(sp, (tuple, list))
        if s > 0 and not explicit and any(c == 0 for c in d):
            bad("normalize_chunks:zero_chunk", f"axis {ax}: zero-size chunk on a positive-length axis chosen by the normalizer: {d}")
            return True
        if isinstance(sp, (int, np.integer)) and not isinstance(sp, bool) and sp > 0 and s > 0:
            c = int(sp)
            q, r = divmod(s, c)
            exp = (c,) * q + ((r,) if r else ())
            if tuple(d) != exp:
                bad("normalize_chunks:uniform", f"axis {ax}: uniform {c} over {s} should be {exp}, got {d}")
                return True
        if isinstance(sp, str):
            auto_axes.append(ax)
    if auto_axes and dtype is not None and np.dtype(dtype).hasobject is False and _known(result) and all(not isnan(s) for s in shape):
        lim = limit
        for sp in spec:
            if isinstance(sp, str) and sp != "auto":
                lim = parse_bytes(sp)
        if lim is None:
            lim = config.get("array.chunk-size")
        if isinstance(lim, str):
            lim = parse_bytes(lim)
        tol = config.get("array.chunk-size-tolerance", 1.25)
        itemsize = np.dtype(dtype).itemsize
        fixed = 1
        for ax, d in enumerate(result):
            if ax not in auto_axes:
                fixed *= max(d)
        block = itemsize
        for d in result:
            block *= max(d)
        floor = itemsize * fixed  # one element along every auto axis
        bound = max(lim * tol, floor)
        ratio = block / max(lim, 1)
        LOG.mx("normalize_chunks:auto_block_over_limit" + (":prev" if previous_chunks is not None else ""), ratio if block > floor else 0.0)
        if block > bound and math.prod(shape) > 0:
            bad("normalize_chunks:auto_over_limit", f"auto block of {block} B exceeds limit {lim} B x tolerance {tol} (fixed-axes floor {floor} B)")
    return True


NORMALIZE = [("dask_array._core_utils", "normalize_chunks", post_normalize_chunks)]

# ==========================================================================
# C27: moved_fraction
# ==========================================================================


def post_moved_fraction(src, dst, result):
    if not LOG.enabled:
        return True
    LOG.evals["moved_fraction"] += 1
    call = [list(src), list(dst)]
    if any(isnan(c) for c in src) or any(isnan(c) for c in dst):
        return True
    try:
        r = float(result)
    except Exception:
        LOG.bad("moved_fraction", "moved_fraction:type", f"moved_fraction({src},{dst}) -> {result!r}", call)
        return True
    if not (0.0 <= r <= 1.0) or r != r:
        LOG.bad("moved_fraction", "moved_fraction:range", f"moved_fraction({src},{dst}) -> {r}", call)
        return True

    def bounds(c):
        out, s = set(), 0
        for x in c:
            s += x
            out.add(s)
        return out

    if sum(src) == sum(dst):
        if tuple(src) == tuple(dst) and r != 0:
            LOG.bad("moved_fraction", "moved_fraction:identical", f"moved_fraction({src},{dst}) -> {r}", call)
        elif bounds(dst) >= bounds(src) and r != 0:
            LOG.bad("moved_fraction", "moved_fraction:pure_split", f"moved_fraction({src},{dst}) -> {r} for a pure split", call)
    return True


MOVED = [("dask_array._expr", "moved_fraction", post_moved_fraction)]

GROUPS = {"slicing": SLICING, "rechunk": RECHUNK, "normalize": NORMALIZE, "moved": MOVED}


def install(*groups):
    import dask_array  # noqa: F401  (make sure modules that import the helpers by name are loaded)
    import dask_array.io._from_array  # noqa: F401
    import dask_array.io._store  # noqa: F401
    import dask_array.slicing._basic  # noqa: F401

    for g in groups:
        if g in _INSTALLED:
            continue
        for modname, fname, cond in GROUPS[g]:
            attach(modname, fname, cond)
        _INSTALLED.add(g)


def original(modname, fname):
    import importlib

    f = getattr(importlib.import_module(modname), fname)
    return getattr(f, "__vf_orig__", f)


def flush_to(ctx, prefix=""):
    """Move contract observations into a worker Ctx. Returns the drained violations."""
    for k, n in LOG.evals.items():
        ctx.counters[f"contract_evals:{k}"] += n
    LOG.evals.clear()
    for k, n in LOG.obs.items():
        ctx.tables["contract_obs"][k] += n
    LOG.obs.clear()
    for k, v in LOG.maxima.items():
        ctx.mx(k, v)
    v = LOG.drain()
    LOG.mechs.clear()
    return v
