"""Child interpreter for C26: performs a sequence of imports (and optionally register()), probing the xarray chunk-manager state after each step."""

from __future__ import annotations

import importlib
import json
import sys
import warnings

IMPORT_LOG = []


def audit(event, args):
    if event == "import" and args and isinstance(args[0], str) and (args[0] == "dask_array._xarray" or args[0] == "xarray"):
        import traceback

        st = [f"{f.name}@{f.filename.split('/')[-1]}:{f.lineno}" for f in traceback.extract_stack()[:-1] if "dask_array" in f.filename or "xarray" in f.filename]
        IMPORT_LOG.append({"module": args[0], "stack": st[-6:]})


def probe(final=False):
    st = {"_xarray_loaded": "dask_array._xarray" in sys.modules, "xarray_loaded": "xarray" in sys.modules}
    if "dask_array.xarray" in sys.modules:
        try:
            st["isactive"] = bool(sys.modules["dask_array.xarray"].isactive())
        except Exception as e:
            st["isactive"] = f"raises:{type(e).__name__}"
    if "xarray" in sys.modules and final:
        try:
            from xarray.namedarray.parallelcompat import list_chunkmanagers

            m = list_chunkmanagers().get("dask")
            st["dask_manager"] = f"{type(m).__module__}.{type(m).__qualname__}" if m is not None else None
        except Exception as e:
            st["dask_manager"] = f"raises:{type(e).__name__}"
    return st


def chunk_type():
    import numpy as np
    import xarray as xr

    da_ = xr.DataArray(np.arange(6.0).reshape(2, 3), dims=("a", "b")).chunk({"a": 1})
    d = da_.data
    return f"{type(d).__module__}.{type(d).__qualname__}"


def _demean(v):
    return v - v.mean()


def _add_transposed(ds):
    return ds["a"] + ds["bt"].transpose("x", "y") * 2


def _ds_load(a, b, how):
    import xarray as xr

    ds = xr.Dataset({"p": a + 1, "q": a + 1, "r": b * 2, "s": a - b})
    ds = ds.assign(t=ds.p)
    out = getattr(ds, how)()
    if how == "persist":
        out = out.compute()
    return xr.concat([out[k] for k in ("p", "q", "r", "s", "t")], dim="x")


def xr_programs():
    """Small xarray programs; each returns a function of a DataArray/Dataset -> DataArray."""
    import xarray as xr

    progs = {
        "arith": lambda a, b: a * 2 + b - a.mean("x"),
        "sum": lambda a, b: (a + b).sum("y"),
        "mean_all": lambda a, b: a.mean(),
        "std": lambda a, b: a.std("x", ddof=1),
        "max_skipna": lambda a, b: a.where(a > 3).max("y"),
        "rolling_mean": lambda a, b: a.rolling(x=3, min_periods=1).mean(),
        "rolling_sum_center": lambda a, b: a.rolling(y=2, center=True).sum(),
        "isel": lambda a, b: a.isel(x=slice(1, 5), y=[0, 2]),
        "sel": lambda a, b: a.sel(x=slice(2, 6)),
        "coarsen": lambda a, b: a.coarsen(x=2, boundary="trim").mean(),
        "concat": lambda a, b: xr.concat([a, b], dim="x"),
        "where": lambda a, b: xr.where(a > b, a, b),
        "transpose_dot": lambda a, b: xr.dot(a, b.transpose("y", "x"), dims="y") if False else (a * b).sum("y"),
        "cumsum": lambda a, b: a.cumsum("x"),
        "diff": lambda a, b: a.diff("y"),
        "shift": lambda a, b: a.shift(x=2),
        "pad": lambda a, b: a.pad(x=1, mode="edge"),
        "clip": lambda a, b: a.clip(2, 9),
        "argmax": lambda a, b: a.argmax("x"),
        "quantile_free_median": lambda a, b: a.reduce(__import__("numpy").nanmax, dim="y"),
        "stack": lambda a, b: a.stack(z=("x", "y")),
        "apply_ufunc_vectorize": lambda a, b: xr.apply_ufunc(_demean, (a.chunk({"y": -1}) if a.chunks else a), input_core_dims=[["y"]], output_core_dims=[["y"]], vectorize=True, dask="parallelized", output_dtypes=[float]),
        "map_blocks_mixed_dim_order": lambda a, b: xr.map_blocks(_add_transposed, xr.Dataset({"a": a, "bt": b.transpose("y", "x")}).unify_chunks()),
        "fillna": lambda a, b: a.where(a > 2).fillna(0),
        "astype": lambda a, b: a.astype("float32") + 1,
        "broadcast": lambda a, b: a + b.isel(x=0),
        "mean_two_dims": lambda a, b: (a - b).mean(("x", "y")),
        "expand_squeeze": lambda a, b: a.expand_dims("t").squeeze("t") * 3,
        "isnull_count": lambda a, b: a.where(a > 4).isnull().sum("x"),
        "roll": lambda a, b: a.roll(y=1, roll_coords=False),
        "apply_ufunc": lambda a, b: xr.apply_ufunc(__import__("numpy").add, a, b, dask="allowed"),
        # several variables loaded in one call, two of them carrying the very same expression
        "dataset_shared_vars_compute": lambda a, b: _ds_load(a, b, "compute"),
        "dataset_shared_vars_load": lambda a, b: _ds_load(a, b, "load"),
        "dataset_shared_vars_persist": lambda a, b: _ds_load(a, b, "persist"),
        "rolling_mean_second_axis": lambda a, b: a.rolling(y=3, min_periods=1).mean(),
        "rolling_max_second_axis_long_window": lambda a, b: a.chunk({"y": 1}).rolling(y=3).max() if a.chunks else a.rolling(y=3).max(),
    }
    return progs


def run_compute(spec):
    import numpy as np
    import xarray as xr

    out = {"programs": {}}
    if spec.get("legacy_first"):
        # objects chunked before register() (legacy dask.array) must keep working afterwards
        early = xr.DataArray(np.arange(12.0).reshape(4, 3), dims=("x", "y")).chunk({"x": 2})
    import dask_array.xarray as dax

    out["before_register"] = {"isactive": dax.isactive(), "chunk_type": chunk_type()}
    dax.register()
    out["after_register"] = {"isactive": dax.isactive(), "chunk_type": chunk_type(), **probe(final=True)}
    if spec.get("legacy_first"):
        try:
            v = (early + 1).sum("y").compute().values
            out["legacy_object_after_register"] = bool(np.allclose(v, (np.arange(12.0).reshape(4, 3) + 1).sum(1)))
        except Exception as e:
            out["legacy_object_after_register"] = f"raises:{type(e).__name__}:{str(e)[:100]}"
    rs = np.random.default_rng(spec.get("seed", 0))
    nx, ny = spec.get("nx", 8), spec.get("ny", 4)
    A = (rs.integers(-8, 12, size=(nx, ny))).astype("f8")
    B = (rs.integers(-8, 12, size=(nx, ny))).astype("f8")
    coords = {"x": np.arange(nx), "y": np.arange(ny), "g": ("x", np.arange(nx) % 3)}
    a_np = xr.DataArray(A, dims=("x", "y"), coords=coords, name="a")
    b_np = xr.DataArray(B, dims=("x", "y"), coords=coords, name="b")
    cx, cy = spec.get("cx", 3), spec.get("cy", 2)
    a_da, b_da = a_np.chunk({"x": cx, "y": cy}), b_np.chunk({"x": max(1, cx - 1), "y": ny})
    out["chunked_type"] = f"{type(a_da.data).__module__}.{type(a_da.data).__qualname__}"
    for name, f in xr_programs().items():
        try:
            e = f(a_np, b_np)
        except Exception as ex:
            out["programs"][name] = {"status": "numpy_raises", "err": type(ex).__name__}
            continue
        try:
            g = f(a_da, b_da)
            gt = f"{type(g.data).__module__}.{type(g.data).__qualname__}"
            gv = g.compute()
            ok = bool(np.allclose(np.asarray(gv.values, dtype="f8"), np.asarray(e.values, dtype="f8"), equal_nan=True)) and tuple(gv.shape) == tuple(e.shape) and tuple(gv.dims) == tuple(e.dims)
            out["programs"][name] = {"status": "match" if ok else "MISMATCH", "lazy_type": gt, "expected": np.asarray(e.values).ravel()[:6].tolist(), "got": np.asarray(gv.values).ravel()[:6].tolist()}
        except Exception as ex:
            out["programs"][name] = {"status": "raises", "err": f"{type(ex).__name__}: {str(ex)[:150]}"}
    return out


def main():
    warnings.simplefilter("ignore")
    spec = json.load(open(sys.argv[1]))
    sys.addaudithook(audit)
    res = {"steps": []}
    if spec["mode"] == "imports":
        for step in spec["steps"]:
            rec = {"step": step}
            try:
                if step == "REGISTER":
                    import dask_array.xarray as dax

                    dax.register()
                elif step == "CHUNK":
                    rec["chunk_type"] = chunk_type()
                elif step == "DATASET":
                    # an xarray Dataset that holds a dask_array.Array goes through dask's collection protocol (optimize / persist /
                    # compute) without register(): this must not activate the integration either
                    import dask
                    import numpy as np
                    import xarray as xr

                    import dask_array as da

                    ds = xr.Dataset({"v": (("x",), da.from_array(np.arange(6.0), chunks=3) + 1)})
                    (o,) = dask.optimize(ds)
                    (p_,) = dask.persist(ds)
                    rec["dataset_value_ok"] = bool(np.allclose(p_["v"].values, np.arange(6.0) + 1)) and bool(np.allclose(ds["v"].sum().values, 21 + 6 - 6))
                else:
                    importlib.import_module(step)
            except Exception as e:
                rec["error"] = f"{type(e).__name__}: {str(e)[:120]}"
            rec["state"] = probe()
            res["steps"].append(rec)
        res["final"] = probe(final=True)
        if "xarray" in sys.modules:
            try:
                res["final"]["chunk_type"] = chunk_type()
            except Exception as e:
                res["final"]["chunk_type"] = f"raises:{type(e).__name__}"
        res["import_log"] = IMPORT_LOG[:10]
        try:
            from importlib.metadata import distributions, entry_points

            eps = entry_points(group="xarray.chunkmanagers")
            res["entry_points"] = [{"name": ep.name, "value": ep.value, "dist": getattr(getattr(ep, "dist", None), "name", None)} for ep in eps]
        except Exception as e:
            res["entry_points"] = f"raises:{type(e).__name__}"
    else:
        res = run_compute(spec)
    json.dump(res, open(sys.argv[2], "w"))


if __name__ == "__main__":
    main()
