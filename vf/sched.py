"""S - instrumented task scheduler.

Executes a dask graph in a chosen topological order while monitoring:
  * closure / acyclicity (a dangling dependency or a cycle is reported, not papered over)
  * every produced value's fingerprint (key -> fingerprint log)
  * mutation: after each task ran, the fingerprint of each of its inputs is re-taken
    and compared with the one taken when that input was produced.
"""

from __future__ import annotations

import random

import numpy as np
from dask._task_spec import Alias, DataNode, GraphNode, Task, convert_legacy_graph
from dask.core import flatten

from vf.oracles import arrays_in, fingerprint


class GraphProblem(Exception):
    def __init__(self, kind, msg):
        super().__init__(msg)
        self.kind = kind


def materialize(collection_or_graph):
    g = collection_or_graph
    if hasattr(g, "__dask_graph__"):
        g = g.__dask_graph__()
    dsk = dict(g)
    return convert_legacy_graph(dsk)


def structure(dsk):
    """Return (deps, problems) for a converted graph: dangling deps and cycles."""
    deps = {k: set(v.dependencies) for k, v in dsk.items()}
    problems = []
    for k, ds in deps.items():
        missing = [d for d in ds if d not in dsk]
        if missing:
            problems.append(("dangling", f"task {k!r} depends on undefined {missing[:3]!r}"))
    # Kahn
    indeg = {k: 0 for k in dsk}
    dependents = {k: [] for k in dsk}
    for k, ds in deps.items():
        for d in ds:
            if d in dsk:
                indeg[k] += 1
                dependents[d].append(k)
    ready = [k for k, n in indeg.items() if n == 0]
    done = 0
    while ready:
        k = ready.pop()
        done += 1
        for c in dependents[k]:
            indeg[c] -= 1
            if indeg[c] == 0:
                ready.append(c)
    if done != len(dsk):
        cyc = [k for k, n in indeg.items() if n > 0][:4]
        problems.append(("cycle", f"dependency cycle through {cyc!r}"))
    return deps, problems


class Run:
    """Result of one monitored execution."""

    def __init__(self):
        self.values = {}
        self.fp = {}
        self.order = []
        self.mutations = []  # (task key, input key, before fp, after fp)
        self.ntasks = 0
        self.refp = 0
        self.aliased_results = 0


def execute(dsk, keys=None, order="random", rng=None, check_mutation=True, keep_all=True, on_task=None):
    """Run converted graph `dsk` serially in the given order kind.

    order: "random" | "fifo" | "lifo" | "sorted" | "rsorted"
    """
    rng = rng or random.Random(0)
    deps, problems = structure(dsk)
    if problems:
        raise GraphProblem(problems[0][0], problems[0][1])
    indeg = {k: len(ds) for k, ds in deps.items()}
    dependents = {k: [] for k in dsk}
    for k, ds in deps.items():
        for d in ds:
            dependents[d].append(k)
    ready = [k for k, n in indeg.items() if n == 0]
    if order in ("sorted", "rsorted"):
        ready.sort(key=str, reverse=(order == "rsorted"))
    run = Run()
    cache = run.values
    while ready:
        if order == "random":
            i = rng.randrange(len(ready))
            ready[i], ready[-1] = ready[-1], ready[i]
            k = ready.pop()
        elif order == "fifo":
            k = ready.pop(0)
        else:
            k = ready.pop()
        node = dsk[k]
        v = node(cache)
        cache[k] = v
        run.order.append(k)
        run.ntasks += 1
        f = fingerprint(v)
        run.fp[k] = f
        if check_mutation and isinstance(node, Task):
            for d in deps[k]:
                run.refp += 1
                f2 = fingerprint(cache[d])
                if f2 != run.fp[d]:
                    run.mutations.append((k, d, run.fp[d], f2))
                    run.fp[d] = f2
        if on_task is not None:
            on_task(k, node, v)
        newly = []
        for c in dependents[k]:
            indeg[c] -= 1
            if indeg[c] == 0:
                newly.append(c)
        if order in ("sorted", "rsorted"):
            ready.extend(newly)
            ready.sort(key=str, reverse=(order == "rsorted"))
        else:
            ready.extend(newly)
    return run


def assemble(keys, values):
    """Assemble the nested key list of a collection into one ndarray (like finalize)."""

    def rec(k, depth):
        if isinstance(k, list):
            parts = [rec(x, depth + 1) for x in k]
            return parts
        return values[k]

    nested = rec(keys, 0)

    def conc(x, axis):
        if isinstance(x, list):
            parts = [conc(p, axis + 1) for p in x]
            if isinstance(parts[0], np.ma.MaskedArray):
                return np.ma.concatenate(parts, axis=axis)
            return np.concatenate(parts, axis=axis)
        return x

    if not isinstance(nested, list):
        return nested
    if len(nested) == 1 and not isinstance(nested[0], list) and np.ndim(nested[0]) == 0:
        return nested[0]  # 0-d collection: its key list is [(name,)]
    out = conc(nested, 0)
    return out


def order_hash(order):
    import hashlib

    return hashlib.blake2b(repr(order).encode(), digest_size=6).hexdigest()


def get_random(seed=0, order="random", log=None):
    """A dask `get` callable usable as compute(scheduler=...)."""

    def get(dsk, keys, **kwargs):
        g = convert_legacy_graph(dict(dsk))
        run = execute(g, order=order, rng=random.Random(seed))
        if log is not None:
            log.append(run)

        def look(k):
            if isinstance(k, list):
                return [look(x) for x in k]
            return run.values[k]

        return look(keys)

    return get
