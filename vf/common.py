"""Shared plumbing: paths, sanity gates, worker context, JSON helpers."""

from __future__ import annotations

import hashlib
import json
import os
import signal
import subprocess
import sys
import time
import traceback
from collections import Counter, defaultdict

VERIF = os.path.dirname(os.path.dirname(os.path.abspath(__file__)))
REPO = os.environ.get("VERIF_REPO", "/repo")
DEPS = os.path.join(VERIF, ".deps")
WHEELS = "/opt/veriftools/wheels"
PY = "/venv/bin/python"
GUARD = "DASK_ARRAY_VERIF"


def ensure_deps():
    """Install icontract/deal next to the repo interpreter (offline, git-ignored)."""
    marker = os.path.join(DEPS, "icontract")
    if not os.path.isdir(marker):
        os.makedirs(DEPS, exist_ok=True)
        subprocess.run(
            [PY, "-m", "pip", "install", "-q", "--no-index", "--find-links", WHEELS, "--target", DEPS, "icontract", "deal"],
            check=True,
            stdout=subprocess.DEVNULL,
            stderr=subprocess.DEVNULL,
            env={**os.environ, "PIP_NO_INDEX": "1"},
        )
    if DEPS not in sys.path:
        sys.path.append(DEPS)


def sanity_repo():
    """The check must judge /repo's working tree, not a stale copy."""
    import dask_array

    f = os.path.realpath(dask_array.__file__)
    root = os.path.realpath(REPO)
    if not f.startswith(root + os.sep):
        raise Inconclusive(f"dask_array imported from {f}, not under {root}")
    return f


class Inconclusive(Exception):
    pass


class CaseTimeout(BaseException):
    pass


def h64(obj) -> str:
    if not isinstance(obj, (bytes, str)):
        obj = json.dumps(obj, sort_keys=True, default=str)
    if isinstance(obj, str):
        obj = obj.encode()
    return hashlib.blake2b(obj, digest_size=8).hexdigest()


def jdefault(o):
    import numpy as np

    if isinstance(o, np.integer):
        return int(o)
    if isinstance(o, np.floating):
        return float(o)
    if isinstance(o, np.bool_):
        return bool(o)
    if isinstance(o, np.ndarray):
        return o.tolist()
    if isinstance(o, (set, frozenset)):
        return sorted(o, key=str)
    if isinstance(o, np.dtype):
        return str(o)
    return repr(o)


def jdump(obj, path=None, **kw):
    s = json.dumps(obj, default=jdefault, **kw)
    if path is None:
        return s
    tmp = f"{path}.tmp{os.getpid()}"
    with open(tmp, "w") as f:
        f.write(s)
    os.replace(tmp, path)


class Ctx:
    """Per-worker recorder of what the monitors observed."""

    MAX_VIOL = 12
    MAX_SAMPLES = 4

    def __init__(self, prop, tier, seed, index=0):
        self.prop = prop
        self.tier = tier
        self.seed = seed
        self.index = index
        self.counters = Counter()
        self.tables = defaultdict(Counter)
        self.distinct = set()
        self.nontrivial = set()
        self.samples = []
        self.violations = []
        self.viol_mechs = Counter()
        self.inconclusive = []
        self.maxima = {}
        self.evaluations = 0
        self.notes = {}
        self.current_case = None
        self.state = {}

    # -- observations -----------------------------------------------------
    def count(self, key, n=1):
        self.counters[key] += n

    def tab(self, table, key, n=1):
        self.tables[table][str(key)] += n

    def mx(self, key, value):
        if value is None:
            return
        try:
            if value != value:
                return
        except Exception:
            return
        if key not in self.maxima or value > self.maxima[key]:
            self.maxima[key] = value

    def seen(self, key, nontrivial=True):
        k = h64(key)
        self.distinct.add(k)
        if nontrivial:
            self.nontrivial.add(k)

    def sample(self, obj):
        if len(self.samples) < self.MAX_SAMPLES:
            self.samples.append(obj)

    def violation(self, kind, msg, case=None, mech=None, extra=None):
        """Record a violation. `mech` is the mechanism key used by known_findings."""
        mech = mech or kind
        self.viol_mechs[mech] += 1
        # keep at most 3 witnesses per mechanism, MAX_VIOL overall
        if self.viol_mechs[mech] > 3 or len(self.violations) >= self.MAX_VIOL:
            self.count("violations_not_stored")
            return
        self.violations.append(
            {
                "property": self.prop,
                "kind": kind,
                "mech": mech,
                "msg": str(msg)[:4000],
                "case": case if case is not None else self.current_case,
                "extra": extra,
            }
        )

    def inconc(self, reason):
        if reason not in self.inconclusive:
            self.inconclusive.append(reason)

    def result(self):
        return {
            "index": self.index,
            "evaluations": self.evaluations,
            "counters": dict(self.counters),
            "tables": {k: dict(v) for k, v in self.tables.items()},
            "distinct": sorted(self.distinct),
            "nontrivial": sorted(self.nontrivial),
            "samples": self.samples,
            "violations": self.violations,
            "viol_mechs": dict(self.viol_mechs),
            "inconclusive": self.inconclusive,
            "maxima": self.maxima,
            "notes": self.notes,
        }


class case_alarm:
    """Wall-clock watchdog around one case. Firing is *inconclusive*, never a violation."""

    def __init__(self, seconds):
        self.seconds = seconds
        self.fired = False

    def _fire(self, signum, frame):
        # The raise can land anywhere - e.g. inside the scheduler's own exception handling, where it
        # resurfaces as an unrelated error (InvalidStateError on a finished future) that the check
        # would take for the program's. `fired` lets the caller discard whatever the case concluded.
        self.fired = True
        raise CaseTimeout()

    def __enter__(self):
        self.old = signal.signal(signal.SIGALRM, self._fire)
        signal.setitimer(signal.ITIMER_REAL, self.seconds)
        return self

    def __exit__(self, *a):
        signal.setitimer(signal.ITIMER_REAL, 0)
        signal.signal(signal.SIGALRM, self.old)
        return False


def short_tb(e, limit=8):
    tb = traceback.extract_tb(e.__traceback__)
    frames = [f"{os.path.basename(f.filename)}:{f.lineno}:{f.name}" for f in tb[-limit:]]
    return f"{type(e).__name__}: {str(e)[:500]} @ " + " < ".join(reversed(frames))


def exc_site(e):
    """Deepest frame inside the repository (for mechanism keys)."""
    tb = traceback.extract_tb(e.__traceback__)
    for f in reversed(tb):
        if "/dask_array/" in f.filename and "/tests/" not in f.filename:
            return f"{os.path.basename(f.filename)}:{f.name}"
    return "outside"


def msg_key(e, nwords=3):
    """Stable key for an exception message: first words with numbers/identifiers stripped."""
    import re

    m = str(e).split("\n")[0]
    m = re.sub(r"\(.*", "", m)  # drop everything from the first parenthesis (keys, shapes, values)
    m = re.sub(r"[0-9a-f]{8,}", "", m)
    m = re.sub(r"[^A-Za-z ]+", " ", m)
    return "_".join(m.split()[:nwords]) or "no_message"


def now():
    return time.monotonic()
