"""C02 - every optimization phase and every fired rewrite preserves values."""

from __future__ import annotations

import random

import dask
import numpy as np

from vf import rewrites as R
from vf.common import exc_site, short_tb
from vf.gen import OPS, Prog, ReplayRefused
from vf.oracles import same
from vf.util import closure_has_zero, tally_ops, tally_prog

PROPERTY = "C02"
WORKERS = {"quick": 16, "thorough": 16}
CASES = {"quick": 400, "thorough": 2400}
TIME = {"quick": 55, "thorough": 240}
CASE_TIMEOUT = 120
TECHNIQUE = "runtime monitoring: rewrite recorder hooked on every _simplify_down/_simplify_up/_lower keeps before/after expressions; each fired rewrite and each phase (raw/simplified/lowered/fused) is evaluated by the instrumented scheduler and compared with the NumPy mirror; fused tasks' dependency keys are compared with the un-fused member layers"
RULE = (
    "programs from G with sharing emphasised (several consumers of one chain). (a) raw graph (optimize-graph=False), simplify+lower, "
    "lower_completely, optimize() forms are each executed and compared with the NumPy mirror (shape, dtype, values). (b) every recorded "
    "rewrite before->after is judged by the first applicable rung: 1 NumPy value registered for before's name; 2 simplify-phase: both "
    "sides evaluated without simplification; 3 lower-phase: before re-evaluated from single-chunk copies of its operands "
    "(layout-insensitive classes only); 4 metadata only (shape, dtype). (c) for every FusedBlockwise, per output block, the external "
    "dependency keys of the fused task must equal those reached through the members' own un-fused _layer() tasks. distinct = rule sites "
    "(Class.hook: before-type -> after-type) x program signature; non-trivial = rewrite checked by rung 1-3 on a multi-block expression"
)
ASSUMPTIONS = [
    "NumPy mirror as ground truth; chunk layout of before/after is not compared (rewrites may change it, _materialize bridges the root)",
    "rung 3 applies only to classes listed in vf.rewrites.LAYOUT_INSENSITIVE and Reduction subclasses",
]
WEIGHTS = {"#index": 1.6, "#rechunk": 2.0, "#move": 1.3, "#reduction": 1.2, "#window": 1.5, "#combine": 1.5, "#linalg": 0.4}


def setup(ctx):
    R.REC.install()


def phase_values(x, ctx):
    """Evaluate the four forms. Returns list of (phase, value | ('raises', e))."""
    out = []
    expr = x.expr
    for phase, kw in (("raw", dict()), ("simplified", dict(simplify=True)), ("fused", dict(simplify=True, fuse=True))):
        try:
            val, e = R.eval_expr(expr, **kw)
            out.append((phase, val, e))
        except Exception as ex:
            out.append((phase, ("raises", ex), None))
    return out


def judge_record(rec, reg, ctx):
    """Return (rung, problem | None)."""
    before, after = rec.before, rec.after
    if not R.is_li(before, reg):
        # block-count-dependent intermediate (per-block partials, user kernels, ...): its shape and
        # values legitimately depend on the layout, so a local comparison would be stricter than the
        # property; the end-to-end phase comparison still covers the program.
        ctx.tab("not_judged_layout_dependent", type(before).__name__)
        return 5, None
    # metadata always
    meta_problem = None
    try:
        bs, as_ = tuple(before.shape), tuple(after.shape)
        if not shapes_equal(bs, as_):
            meta_problem = f"shape {bs} -> {as_} changed by the rewrite"
        elif before.dtype != after.dtype:
            meta_problem = f"dtype {before.dtype} -> {after.dtype}"
    except Exception as e:
        ctx.count("rewrite_meta_unavailable")
    if meta_problem:
        return 4, ("rewrite_changes_metadata", meta_problem)
    try:
        aval, _ = R.eval_expr(after)
    except Exception as e:
        ctx.count("rewrite_after_eval_raised")
        ctx.tab("after_eval_raised", f"{rec.site}:{type(e).__name__}")
        return 0, None
    v = reg.get(before._name)
    if v is not None:
        why = same(v.np, aval, v.inx, v.mag, eps=v.eps)
        if why:
            # is it the rewrite, or does `before` itself already differ from NumPy (C01's event)?
            try:
                bval, _ = R.eval_expr(before)
                if same(bval, aval, v.inx, v.mag, eps=v.eps) is None:
                    ctx.count("rung1_upstream_defect_not_the_rewrite")
                    return 1, None
            except Exception:
                pass
        if not why:
            reg.setdefault(after._name, v)  # `after` denotes the same user-level array
        return 1, (("rewrite_changes_value", why) if why else None)
    if rec.phase == "simplify":
        try:
            bval, _ = R.eval_expr(before)
        except Exception as e:
            ctx.count("rewrite_before_eval_raised")
            return 4, None
        why = same(bval, aval, 2 if np.asarray(bval).dtype.kind in "fc" else 0, _mag(bval), eps=tree_eps(before))
        return 2, (("rewrite_changes_value", why) if why else None)
    bval, reason = R.one_block_value(before)
    if bval is None:
        ctx.tab("rung4_reasons", reason.split(":")[0])
        return 4, None
    why = same(bval, aval, 2 if np.asarray(bval).dtype.kind in "fc" else 0, _mag(bval), eps=tree_eps(before))
    return 3, (("rewrite_changes_value", why) if why else None)


def tree_eps(expr):
    """Coarsest float epsilon of any node below expr (a float32 intermediate limits the accuracy
    with which two differently associated evaluations can agree)."""
    eps = 0.0
    try:
        for n in expr.walk():
            dt = getattr(n, "dtype", None)
            if dt is not None and np.dtype(dt).kind in "fc":
                eps = max(eps, float(np.finfo(dt).eps))
    except Exception:
        pass
    return eps


def _mag(a):
    from vf.gen import absmax

    return absmax(np.asarray(a))


def shapes_equal(a, b):
    if len(a) != len(b):
        return False
    for x, y in zip(a, b):
        if isinstance(x, float) and x != x:
            continue
        if isinstance(y, float) and y != y:
            continue
        if x != y:
            return False
    return True


def check_program(g, v, ctx):
    problems = []
    x = v.da
    reg = {u.da.name: u for u in g.vars if u.da is not None}
    z = "|zero_size" if closure_has_zero(g, v) else ""
    # (b) record rewrites during a full optimize
    R.REC.start(cap=None)
    try:
        opt = x.expr.optimize()
    except Exception as e:
        R.REC.stop()
        ctx.count("optimize_raised")
        ctx.tab("raises_left_to_C08", f"{type(e).__name__}:{exc_site(e)}")
        return problems
    recs = R.REC.stop()
    ctx.count("rewrites_recorded", len(recs))
    try:
        multi = int(np.prod(x.numblocks)) >= 2
    except Exception:
        multi = False
    for rec in recs[:40]:
        rung, prob = judge_record(rec, reg, ctx)
        ctx.tab("rule_sites", f"{rec.site} | rung{rung}")
        ctx.tab("rungs", f"rung{rung}")
        if rung in (1, 2, 3):
            ctx.count("rewrites_value_checked")
        ctx.seen((rec.site, g.signature(v.id)[-3:]), rung in (1, 2, 3) and multi)
        if prob:
            kind, why = prob
            problems.append((kind, f"{rec.site} [{rec.phase}, rung {rung}]: {why}\n  before: {str(rec.before)[:300]}\n  after:  {str(rec.after)[:300]}", f"{kind}:{rec.rule}:{type(rec.before).__name__}->{type(rec.after).__name__}:{why.split()[0]}{z}"))
    # (a) phases
    ref, ref_name = v.np, "NumPy"
    for phase, val, e in phase_values(x, ctx):
        if isinstance(val, tuple) and len(val) == 2 and isinstance(val[0], str) and val[0] == "raises":
            ctx.count(f"phase_raised:{phase}")
            ctx.tab("raises_left_to_C08", f"{phase}:{type(val[1]).__name__}:{exc_site(val[1])}")
            continue
        ctx.count("phase_values_compared")
        why = same(ref, val, v.inx, v.mag, eps=v.eps)
        if why and phase == "raw":
            # the un-optimized program already differs from NumPy: C01's event, not an optimization effect.
            # The optimized forms are then compared with the raw form instead.
            ctx.count("raw_differs_from_numpy_left_to_C01")
            ref, ref_name = val, "raw form"
            continue
        if why:
            step = g.steps[v.id]
            problems.append(("phase_value", f"{phase} form differs from {ref_name}: {why}", f"phase_value:{phase}:{step['op']}:{why.split()[0]}{z}"))
    # (c) fusion dependency keys
    try:
        fnodes = R.fused_nodes(opt)
    except Exception:
        fnodes = []
    for f in fnodes[:6]:
        try:
            per_block = R.fused_external_deps(f)
        except Exception as e:
            ctx.count("fusion_dep_check_raised")
            ctx.tab("fusion_dep_check_raised", f"{type(e).__name__}:{exc_site(e)}")
            continue
        ctx.count("fused_groups_checked")
        for block, fdeps, ext in per_block:
            ctx.count("fused_blocks_compared")
            if fdeps != ext:
                problems.append(("fusion_changes_inputs", f"fused node {f} block {block}: fused task reads {sorted(map(str, fdeps))[:6]}, un-fused chain reads {sorted(map(str, ext))[:6]}", f"fusion_changes_inputs:{len(f.exprs)}members{z}"))
                break
    return problems


GRID_OPS = [n for n, o in OPS.items() if o.w > 0 and not (o.tags & {"window", "overlap", "reduction", "setitem"})]


def run_one(rng, ctx):
    big = ctx.tier == "thorough"
    grid_case = rng.random() < 0.2
    if grid_case:
        # a grid-sensitive root consumer: map_blocks with a block-local kernel over a subtree of pushdown-able operations
        # (no window operations: their native-chunk substitution is an algebraic rewrite the grid gate does not cover)
        if rng.random() < 0.4:
            # a contiguous window of a fancy-indexed, unevenly chunked axis (the slice can be pushed through the take,
            # which regroups the blocks - possibly into the same NUMBER of blocks)
            n = rng.randint(6, 14)
            from vf.gen import rand_chunks

            shape = [n] + ([rng.randint(1, 3)] if rng.random() < 0.3 else [])
            ind = list(range(n))
            if rng.random() < 0.6:
                for i in range(0, n - 1, 2):
                    if rng.random() < 0.8:
                        ind[i], ind[i + 1] = ind[i + 1], ind[i]
            else:
                rng.shuffle(ind)
            lo = rng.randint(0, n - 3)
            hi = rng.randint(lo + 2, n)
            steps = [
                {"op": "from_array", "in": [], "p": {"shape": shape, "dtype": rng.choice(["f8", "i8"]), "chunks": [list(c) for c in rand_chunks(rng, shape)], "vals": "perm", "seed": rng.randrange(10**6) * 8 + 1}},
                {"op": "take", "in": [0], "p": {"ind": ind, "axis": 0}},
            ]
            if rng.random() < 0.3:
                steps.append({"op": "scalar", "in": [1], "p": {"fn": "add", "s": 1, "rev": False}})
            steps.append({"op": "getitem", "in": [len(steps) - 1], "p": {"idx": [["s", lo, hi, None]]}})
            try:
                g = Prog.replay(steps)
            except ReplayRefused:
                ctx.count("grid_case_not_built")
                return
            g.rng = rng
            ctx.count("grid_directed_take_window")
        else:
            g = Prog(rng, max_extent=7, max_size=3000, weights=WEIGHTS, ops=GRID_OPS)
            g.grow(rng.randint(2, 6))
        cands = [v for v, s in zip(g.vars, g.steps) if s["in"] and v.da is not None and v.ndim >= 1]
        if cands and g.steps[-1]["op"] == "getitem" and ctx.counters.get("grid_directed_take_window"):
            cands = [g.vars[-1]]
        v = g.step_on(rng.choice(cands), "map_blocks_local") if cands else None
        if v is None or g.steps[v.id]["op"] != "map_blocks_local":
            ctx.count("grid_case_not_built")
            return
        ctx.count("grid_sensitive_root_consumers")
        non_leaf = [v]
    else:
        g = Prog(rng, max_extent=rng.choice([7, 9, 12]) if big else 7, max_size=6000 if big else 3000, weights=WEIGHTS)
        g.grow(rng.randint(2, 10 if big else 7))
        non_leaf = [v for v, s in zip(g.vars, g.steps) if s["in"]]
    tally_prog(g, ctx)
    if not non_leaf:
        return
    v = non_leaf[-1]
    case = {"steps": g.closure(v.id)}
    ctx.current_case = case
    problems = check_program(g, v, ctx)
    ctx.count("programs_checked")
    tally_ops(case["steps"], ctx)
    if len(ctx.samples) < 2:
        ctx.sample({"steps": case["steps"]})
    seen = set()
    for kind, msg, mech in problems:
        if mech in seen:
            continue
        seen.add(mech)
        ctx.violation(kind, f"{msg}\n  program: {case['steps']}", case=case, mech=mech)


def replay_case(case, ctx):
    try:
        g = Prog.replay(case["steps"])
    except ReplayRefused as e:
        ctx.violation("build_raises_on_replay", str(e), case=case, mech="replay_refused")
        return
    for kind, msg, mech in check_program(g, g.vars[-1], ctx):
        ctx.violation(kind, msg, case=case, mech=mech)


def finalize(ctx):
    if ctx.counters.get("rewrites_value_checked", 0) == 0:
        ctx.inconc("no fired rewrite was value-checked")
    if ctx.counters.get("fused_blocks_compared", 0) == 0:
        ctx.inconc("no fused block was compared")


RULE += (
    ' Grid contract: 20 % of cases place map_blocks with a block-local kernel (b - b.max(), integer inputs) as the ROOT consumer over pushdown-able subtrees and directed take-window programs; raw, simplified and fused values must agree with the mirror computed over the advertised grid.'
)
