"""C08 - optimization terminates, is idempotent, and never turns a computable program into one that raises."""

from __future__ import annotations

import random

import dask
import numpy as np

from vf import rewrites as R
from vf import sched
from vf.common import exc_site, msg_key, short_tb
from vf.gen import Prog, ReplayRefused
from vf.util import baked_grid_key, closure_has_zero, graph_of, tally_ops, tally_prog

PROPERTY = "C08"
WORKERS = {"quick": 16, "thorough": 16}
CASES = {"quick": 700, "thorough": 4200}
TIME = {"quick": 55, "thorough": 240}
CASE_TIMEOUT = 120
TECHNIQUE = "runtime monitoring: logical step counter inside the rewrite hooks (cap cuts a non-terminating loop and yields the firing sequence), idempotence by name, raise-differential between the un-optimized and the optimized graph under the instrumented scheduler"
RULE = (
    "programs from G biased to rechunk/concatenate/slice/expand_dims interleavings, deep chains (up to 30 ops) and wide sharing. Violations: "
    "RuntimeError('Optimizer does not converge'); more than max(2000, 200 x nodes) rewrite firings in one optimize call (counted inside the "
    "hooks, not by wall clock); optimize(optimize(e)) named differently from optimize(e); the optimized graph (array.optimize-graph=True, "
    "through _materialize) raising while the un-optimized graph of the same program builds and executes. A raise on both paths = program "
    "not computable (ignored). distinct = op sequences; non-trivial = >= 3 rewrites fired"
)
ASSUMPTIONS = ["a wall-clock watchdog only ever yields inconclusive; non-termination is decided on rewrite counts"]
WEIGHTS = {"#rechunk": 3.0, "#combine": 2.0, "#index": 2.0, "#move": 1.5, "#window": 1.5, "#reduction": 0.8, "#linalg": 0.4}
DEEP_OPS = ["unary", "scalar", "getitem", "rechunk", "transpose", "expand_dims", "squeeze", "flip", "astype", "T", "reshape", "roll"]


def nnodes(expr):
    try:
        return sum(1 for _ in expr.walk())
    except Exception:
        return 50


def run_graph(x, optimize):
    y, dsk, keys = graph_of(x, optimize)
    run = sched.execute(dsk, order="lifo", check_mutation=False)
    return y


def phase_fixpoints(raw, opt):
    """Each phase must be idempotent on its own output: simplify on the simplified tree, lowering
    on the lowered tree, fusion on the fused tree. Returns (mechanism, detail) or None."""
    with R.REC.suspend():
        s1 = raw.simplify()
        s2 = s1.simplify()
        if s2._name != s1._name:
            return "not_idempotent:simplify_phase_not_a_fixpoint", f"simplify(simplify(e)) is {s2._name}, simplify(e) is {s1._name}"
        l1 = s1.lower_completely()
        l2 = l1.lower_completely()
        if l2._name != l1._name:
            return "not_idempotent:lower_phase_not_a_fixpoint", f"lowering the lowered tree {l1._name} gives {l2._name}"
        f1 = l1.fuse()
        f2 = f1.fuse()
        if f2._name != f1._name:
            return "not_idempotent:fuse_phase_not_a_fixpoint", f"fuse(fuse(e)) is {f2._name}, fuse(e) is {f1._name}"
    return None


def classify_reoptimization(again, recs2):
    """A second optimize() call renamed the tree although every phase is a fixpoint of itself
    (phase_fixpoints), so the change comes from the composition: the second call simplifies the
    *lowered* tree (nodes lowering introduced or un-shared). It is only that mechanism when the
    second call fired simplify-phase rewrites and a third call is stable."""
    with R.REC.suspend():
        try:
            third = again.optimize()
        except Exception as e:
            return f"not_idempotent:third_pass_raises:{type(e).__name__}:{exc_site(e)}"
    if third._name != again._name:
        return "not_idempotent:third_pass_still_changes"
    if not recs2:
        return "not_idempotent:no_rewrite_fired(fusion_differs)"
    if "simplify" not in {r.phase for r in recs2}:
        return "not_idempotent:second_pass_lowers_only"
    # the recorded finding is about nodes lowering introduced or un-shared being simplified late; an already lowered
    # rechunk plan is different: the repository's rule (dask_array/_rechunk.py: "dispatch sites match type(parent) is
    # Rechunk so the already-lowered TasksRechunk never pushes") is that it takes no part in simplify rewrites at all
    plan = [r for r in recs2 if r.phase == "simplify" and type(r.before).__name__ == "TasksRechunk"]
    if plan:
        return f"not_idempotent:lowered_rechunk_plan_rewritten_by_simplify:{plan[0].rule}"
    return "not_idempotent:simplify_after_lower"


def check_program(g, v, ctx):
    problems = []
    x = v.da
    z = "|zero_size" if closure_has_zero(g, v) else ""
    n = nnodes(x.expr)
    cap = max(2000, 200 * n)
    R.REC.start(cap=cap)
    opt = None
    try:
        opt = x.expr.optimize()
    except R.StepCapExceeded as e:
        problems.append(("nonterminating", f"more than {cap} rewrite firings for a {n}-node expression; tail of the firing sequence: {e.tail}", "nonterminating:step_cap"))
    except RuntimeError as e:
        if "converge" in str(e):
            problems.append(("does_not_converge", short_tb(e), "does_not_converge"))
        else:
            ctx.tab("optimize_raised", f"{type(e).__name__}:{exc_site(e)}")
    except Exception as e:
        ctx.tab("optimize_raised", f"{type(e).__name__}:{exc_site(e)}")
    recs = R.REC.stop()
    ctx.mx("max_firings", len(recs))
    ctx.count("firings", len(recs))
    ctx.count("optimize_calls")
    if opt is not None:
        try:
            R.REC.start(cap=cap)
            again = opt.optimize()
            R.REC.active = False
            ctx.count("idempotence_checks")
            recs2 = R.REC.records
            if again._name != opt._name:
                sites = sorted({r.site.replace(" ", "") for r in recs2})
                mech = classify_reoptimization(again, recs2)
                problems.append(("not_idempotent", f"optimize(optimize(e)) is {type(again).__name__} {again._name}, optimize(e) is {type(opt).__name__} {opt._name}; second pass fired {sites}", mech))
        except R.StepCapExceeded as e:
            R.REC.stop()
            problems.append(("nonterminating", f"re-optimizing an optimized expression: {e.tail}", "nonterminating:reoptimize"))
        except Exception as e:
            R.REC.stop()
            ctx.tab("reoptimize_raised", f"{type(e).__name__}:{exc_site(e)}")
    if opt is not None:
        try:
            pf = phase_fixpoints(x.expr, opt)
            ctx.count("phase_fixpoint_checks")
            if pf is not None:
                problems = [p for p in problems if p[0] != "not_idempotent"]
                problems.append(("not_idempotent", pf[1], pf[0]))
        except Exception as e:
            ctx.tab("phase_fixpoint_raised", f"{type(e).__name__}:{exc_site(e)}")
    # raise differential through the real materialization path
    raw_exc = opt_exc = None
    try:
        run_graph(x, False)
    except Exception as e:
        raw_exc = e
    try:
        run_graph(x, True)
    except Exception as e:
        opt_exc = e
    ctx.count("raise_differentials")
    if raw_exc is None and opt_exc is not None:
        problems.append(("optimization_raises", f"optimized path raises, un-optimized path computes: {short_tb(opt_exc, 10)}", (f"optimization_raises:{type(opt_exc).__name__}:{exc_site(opt_exc)}:{msg_key(opt_exc)}" if z else baked_grid_key(f"optimization_raises:{type(opt_exc).__name__}:{exc_site(opt_exc)}:{msg_key(opt_exc)}", g.closure(v.id))) + z))
    elif raw_exc is not None and opt_exc is not None:
        ctx.tab("not_computable_both_raise", f"{type(raw_exc).__name__}:{exc_site(raw_exc)}")
    elif raw_exc is not None:
        ctx.tab("only_raw_raises", f"{type(raw_exc).__name__}:{exc_site(raw_exc)}")
    return problems, len(recs)


def grow_program(rng, ctx):
    big = ctx.tier == "thorough"
    mode = rng.random()
    if mode < 0.2:
        # deep chain
        g = Prog(rng, max_extent=7, max_size=3000, ops=DEEP_OPS)
        g.grow(rng.randint(10, 30), nleaves=1)
    elif mode < 0.35:
        # wide sharing: several consumers of one chain, then combined
        g = Prog(rng, max_extent=7, max_size=3000, weights=WEIGHTS)
        g.grow(rng.randint(2, 4), nleaves=1)
        base = len(g.vars)
        for _ in range(rng.randint(2, 4)):
            g.step(rng.choice(["getitem", "rechunk", "reduce", "transpose", "unary"]))
        for _ in range(rng.randint(1, 3)):
            g.step(rng.choice(["binary", "concatenate", "stack", "where"]))
    else:
        g = Prog(rng, max_extent=rng.choice([7, 9, 12]) if big else 7, max_size=6000 if big else 3000, weights=WEIGHTS)
        g.grow(rng.randint(2, 12 if big else 8))
    return g


def run_one(rng, ctx):
    g = grow_program(rng, ctx)
    tally_prog(g, ctx)
    non_leaf = [v for v, s in zip(g.vars, g.steps) if s["in"]]
    if not non_leaf:
        return
    v = non_leaf[-1]
    case = {"steps": g.closure(v.id)}
    ctx.current_case = case
    problems, nrec = check_program(g, v, ctx)
    ctx.count("programs_checked")
    ctx.seen(g.signature(v.id), nrec >= 3)
    tally_ops(case["steps"], ctx)
    if len(ctx.samples) < 2 and nrec >= 3:
        ctx.sample({"steps": case["steps"], "rewrites_fired": nrec})
    for kind, msg, mech in problems:
        ctx.violation(kind, f"{msg}\n  program: {case['steps']}", case=case, mech=mech)


def replay_case(case, ctx):
    try:
        g = Prog.replay(case["steps"])
    except ReplayRefused as e:
        ctx.violation("build_raises_on_replay", str(e), case=case, mech="replay_refused")
        return
    problems, _ = check_program(g, g.vars[-1], ctx)
    for kind, msg, mech in problems:
        ctx.violation(kind, msg, case=case, mech=mech)


def setup(ctx):
    R.REC.install()


def finalize(ctx):
    if ctx.counters.get("firings", 0) == 0:
        ctx.inconc("no rewrite firing was observed")
    if ctx.counters.get("idempotence_checks", 0) == 0:
        ctx.inconc("no idempotence check ran")
