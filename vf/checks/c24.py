"""C24 - source reads return exactly the requested elements (recording, bounds-checking sources)."""

from __future__ import annotations

import threading

import dask
import numpy as np

from vf import contracts as K
from vf import rec
from vf.common import exc_site, msg_key, short_tb
from vf.gen import G_for_index, dec_index, enc_index, rand_chunks, rand_composition, rand_slice
from vf.oracles import same

PROPERTY = "C24"
WORKERS = {"quick": 16, "thorough": 16}
CASES = {"quick": 6000, "thorough": 36000}
TIME = {"quick": 50, "thorough": 240}
TECHNIQUE = "runtime monitoring: bounds-checking, logging source array-likes (RecStore) record every read request; offline check of the request log plus NumPy mirror of the values; slice-helper contracts stay attached"
RULE = (
    "sources: RecStore (non-NumPy array-like that refuses to clip) with/without a .chunks/.shards storage grid (aligned, prime, larger than "
    "the array), nested adapter wrappers (.array/._array), lock=, custom getitem=, fancy=False, asarray=, inline_array=; an ndarray subclass; "
    "plain NumPy with the eager-copy threshold lowered to 64 B. Programs: chains of 1-5 slices (ints, ranges, steps +-k), rechunks (aligned "
    "with / splitting storage chunks) in every order, elemwise/transpose in between, optionally two consumers. Violations: any read request "
    "with a bound outside [0, dim], start > stop, a step the store does not support, an out-of-range int; a read without the supplied lock "
    "held; computed values != NumPy indexing of the source; a write to the source. distinct = (source kind, op-kind sequence, grid relation); "
    "non-trivial = at least one slice or rechunk reached the source (region or re-chunked read) and the result is non-empty"
)
ASSUMPTIONS = ["NumPy indexing of the source data is the reference", "the store's own bounds checker defines 'stays within the source's bounds'"]


class MyArr(np.ndarray):
    pass


def custom_getitem(a, b, asarray=True, lock=None):
    """The user's getitem DECODES what the store holds (the store of the 'getitem' kind keeps value + 7): a read that
    bypasses it (the default getter) returns other elements than NumPy indexing of the source."""
    custom_getitem.calls += 1
    c = np.asarray(a[b]) - 7
    return c


custom_getitem.calls = 0


def setup(ctx):
    K.install("slicing")
    import dask_array.io._from_array as fa

    fa._NUMPY_SLICE_PUSHDOWN_NBYTES_LIMIT = 64  # reach region composition cheaply on NumPy sources
    ctx.notes["numpy_pushdown_limit_patched_to"] = 64


def gen_case(rng, tier):
    nd = rng.choice([1, 1, 2, 2, 3])
    ext = 12 if tier == "quick" else 24
    shape = tuple(rng.randint(1, ext) for _ in range(nd))
    while int(np.prod(shape)) > 3000:
        shape = tuple(max(1, s // 2) for s in shape)
    kind = rng.choices(["store", "store_grid", "store_shards", "wrapped", "wrapped2", "lock", "getitem", "nofancy", "subclass", "numpy", "inline"], [4, 6, 2, 2, 1, 2, 1, 2, 1, 4, 1])[0]
    grid = None
    if kind in ("store_grid", "store_shards", "wrapped", "wrapped2", "lock", "nofancy", "inline") and rng.random() < 0.85:
        grid = [rng.choice([1, 2, 3, 4, 5, 7, s, s + 3]) for s in shape]
    chunks = [list(c) for c in rand_chunks(rng, shape)]
    if grid and rng.random() < 0.4:
        # requested chunks aligned with the storage grid
        chunks = [[min(g * rng.randint(1, 2), s)] for g, s in zip(grid, shape)]
        chunks = [list(_uniform(s, c[0])) for s, c in zip(shape, chunks)]
    ops = []
    cur = list(shape)
    g = G_for_index(rng)
    for _ in range(rng.randint(1, 5)):
        r = rng.random()
        if r < 0.5 and cur:
            idx = []
            for n in cur[: rng.randint(1, len(cur))]:
                k = rng.random()
                if k < 0.2 and n > 0:
                    idx.append(rng.randrange(-n, n))
                else:
                    idx.append(rand_slice(g, n, wild=rng.random() < 0.3))
            idx = tuple(idx)
            try:
                new = np.empty(cur)[idx].shape
            except Exception:
                continue
            ops.append(["getitem", enc_index(idx)])
            cur = list(new)
        elif r < 0.8 and cur:
            if grid and len(grid) == len(cur) and rng.random() < 0.5:
                spec = [list(_uniform(s, max(1, min(s, gg * rng.randint(1, 3))))) for s, gg in zip(cur, grid)]
            else:
                spec = [list(c) for c in rand_chunks(rng, cur)]
            ops.append(["rechunk", spec])
        elif r < 0.9:
            ops.append(["add", rng.randint(1, 3)])
        elif len(cur) >= 2:
            axes = list(range(len(cur)))
            rng.shuffle(axes)
            ops.append(["transpose", axes])
            cur = [cur[a] for a in axes]
            if grid and len(grid) == len(axes):
                grid = None if False else grid
    two = rng.random() < 0.25
    inline_lock = kind == "inline" and rng.random() < 0.6
    lazy = (kind in ("lock", "store", "store_grid", "wrapped") or inline_lock) and rng.random() < (0.5 if kind == "lock" or inline_lock else 0.2)
    return {"shape": list(shape), "kind": kind, "grid": grid, "chunks": chunks, "ops": ops, "two_consumers": two, "dtype": rng.choice(["i8", "f8"]), "lazy": lazy, "inline_lock": inline_lock}


def _uniform(n, c):
    if n == 0:
        return (0,)
    c = max(1, min(c, n))
    q, r = divmod(n, c)
    return (c,) * q + ((r,) if r else ())


def build_source(case):
    import dask_array as da

    shape = tuple(case["shape"])
    data = (np.arange(int(np.prod(shape)), dtype=case["dtype"]) * 3 + 1000).reshape(shape)
    kind = case["kind"]
    grid = tuple(case["grid"]) if case["grid"] else None
    chunks = tuple(tuple(c) for c in case["chunks"])
    store = None
    lock = None
    kw = {}
    if kind == "numpy":
        src = data.copy()
    elif kind == "subclass":
        src = data.copy().view(MyArr)
    else:
        if kind == "lock" or case.get("inline_lock"):
            lock = threading.Lock()
            kw["lock"] = lock
        store = rec.RecStore(data + 7 if kind == "getitem" else data, chunks=grid if kind != "store_shards" else None, shards=grid if kind == "store_shards" else None, lock=lock, allow_fancy=(kind != "nofancy"), lazy=bool(case.get("lazy")))
        src = store
        if case.get("lazy"):
            kw["meta"] = np.empty((0,) * len(shape), dtype=data.dtype)
        if kind == "wrapped":
            src = rec.Wrapper(store, "array")
        elif kind == "wrapped2":
            src = rec.Wrapper(rec.Wrapper(store, "_array"), "array")
        if kind == "getitem":
            kw["getitem"] = custom_getitem
        if kind == "nofancy":
            kw["fancy"] = False
        if kind == "inline":
            kw["inline_array"] = True
    x = da.from_array(src, chunks=chunks, **kw)
    return data, store, x


def apply_ops(case, data, x):
    e, y = data, x
    for op, p in case["ops"]:
        if op == "getitem":
            idx = dec_index(p)
            e = e[idx]
            y = y[idx]
        elif op == "rechunk":
            y = y.rechunk(tuple(tuple(c) for c in p))
        elif op == "add":
            e = e + p
            y = y + p
        elif op == "transpose":
            e = e.transpose(p)
            y = y.transpose(p)
    return e, y


def judge(case, ctx):
    rec.PHASE["now"] = "build"
    try:
        data, store, x = build_source(case)
        backup = data.copy()
        e, y = apply_ops(case, data, x)
        outs = [(e, y)]
        if case["two_consumers"]:
            outs.append((e.sum(), y.sum()))
    except Exception as ex:
        ctx.tab("refused_at_build", f"{type(ex).__name__}:{exc_site(ex)}")
        return []
    problems = []
    with rec.phase("execute"):
        for e, y in outs:
            try:
                got = y.compute()
            except Exception as ex:
                ctx.tab("compute_raised_left_to_C01", f"{type(ex).__name__}:{exc_site(ex)}:{msg_key(ex)}")
                # still inspect the read log: out-of-bounds requests may be the cause
                got = None
            if got is not None:
                why = same(e, got)
                ctx.count("values_compared")
                if why:
                    problems.append(("values", f"result differs from NumPy indexing of the source: {why}", f"values:{case['kind']}:{why.split()[0]}"))
    if not np.array_equal(backup, data, equal_nan=True):
        problems.append(("source_modified", "the source data changed during compute", "source_modified"))
    if store is not None:
        reads = store.reads("execute")
        ctx.count("read_requests", len(reads))
        ctx.count("elements_read", sum(r.size for r in reads))
        for ev in store.events:
            if ev.problem:
                problems.append(("out_of_bounds_read" if ev.kind == "read" else "source_write", f"{ev.kind} request {rec.enc(ev.index)} on source of shape {store.shape}: {ev.problem}", f"{ev.kind}_request:{ev.problem.split(':')[1].split()[0] if ':' in ev.problem else 'x'}"))
                break
        if case.get("lazy"):
            ctx.count("lazy_handle_reads", len(reads))
        if case["kind"] == "lock" or case.get("inline_lock"):
            # empty selections are metadata probes (meta inference), not data reads
            unlocked = [ev for ev in reads if ev.locked is False and ev.size > 0]
            ctx.count("locked_reads_checked", len(reads))
            if unlocked:
                problems.append(("read_without_lock", f"{len(unlocked)} of {len(reads)} reads happened while the supplied lock was not held, e.g. {rec.enc(unlocked[0].index)}", "read_without_lock"))
        if reads:
            # did optimization move work into the read? (regions / re-chunked reads)
            sizes = {tuple(_req_shape(r.index, store.shape)) for r in reads}
            ctx.tab("distinct_request_shapes", min(len(sizes), 6))
    return problems


def _req_shape(idx, shape):
    out = []
    for e, n in zip(idx if isinstance(idx, tuple) else (idx,), shape):
        if isinstance(e, slice):
            out.append(len(range(*e.indices(n))))
        else:
            out.append(1)
    return out


def run_one(rng, ctx):
    case = gen_case(rng, ctx.tier)
    ctx.current_case = case
    problems = judge(case, ctx)
    ctx.count("programs_checked")
    kinds = [op for op, _ in case["ops"]]
    pushed = any(k in ("getitem", "rechunk") for k in kinds)
    rel = "nogrid" if not case["grid"] else "grid"
    ctx.seen((case["kind"], tuple(kinds), rel, len(case["shape"])), pushed)
    ctx.tab("source_kinds", case["kind"])
    if len(ctx.samples) < 3 and pushed:
        ctx.sample(case)
    seen = set()
    for kind, msg, mech in problems:
        if mech in seen:
            continue
        seen.add(mech)
        ctx.violation(kind, f"{msg}\n  case: {case}", case=case, mech=mech)
    for v in K.flush_to(ctx):
        ctx.violation("contract:" + v["mech"].split(":")[0], v["msg"], case={"fn": v["fn"], "call": v["call"]}, mech="contract:" + v["mech"])


def replay_case(case, ctx):
    if "fn" in case:
        from vf.checks import c13

        return c13.replay_case(case, ctx)
    for kind, msg, mech in judge(case, ctx):
        ctx.violation(kind, msg, case=case, mech=mech)


def finalize(ctx):
    if ctx.counters.get("read_requests", 0) == 0:
        ctx.inconc("no read request was logged")
    if ctx.counters.get("values_compared", 0) == 0:
        ctx.inconc("no value comparison happened")


RULE += (
    ' Lazy-handle stores (the read is logged when the handle is converted, with the lock state of that moment), a custom getitem that decodes what the store holds, inline_array together with a lock.'
)
