"""C11 - in-place operations only change the array they are applied to (history monitor with snapshot mirrors)."""

from __future__ import annotations

import random

import dask
import numpy as np

from vf import sched
from vf.common import exc_site, msg_key, short_tb
from vf.gen import leaf_values, rand_chunks, rand_shape
from vf.oracles import same

PROPERTY = "C11"
WORKERS = {"quick": 16, "thorough": 16}
CASES = {"quick": 260, "thorough": 1600}
TIME = {"quick": 45, "thorough": 240}
CASE_TIMEOUT = 120
TECHNIQUE = (
    "runtime monitoring of mutation histories: every live collection carries a NumPy mirror snapshotted (copied) when it was derived; "
    "after each in-place operation (x[key] = value over all key kinds, ufunc out=x, compute_chunk_sizes) x must equal the NumPy result of "
    "the same assignment and every other live collection must still equal its snapshot; keys are read before and after each mutation "
    "(x.__dask_keys__ against x.__dask_graph__, to_delayed) so a stale per-collection cache is observable; source arrays are compared "
    "with private copies"
)
RULE = (
    "histories of 5-25 steps on 1-3 base arrays: derivations (slice, arithmetic, transpose, reduction, copy) taken before and after "
    "mutations; assignments with integer / slice / negative-step / Ellipsis / NumPy bool mask / dask bool mask / int list keys and scalar, "
    "broadcast NumPy, dask-array and masked values; ufunc(..., out=x) and out= with where=; compute_chunk_sizes on x[x > c]; computes of "
    "random live collections and key-level reads (dask.get over x.__dask_keys__, to_delayed) between steps. distinct = (key kind, value "
    "kind, derivations alive); non-trivial = a mutation applied to a multi-block array with >= 2 other live collections checked afterwards"
)
ASSUMPTIONS = ["NumPy assignment semantics as ground truth; an assignment dask-array refuses at assignment time is counted, not judged"]


def np_equal(a, b):
    return same(a, b, 0, 1.0) is None


class Live:
    def __init__(self, name, coll, mirror, kind):
        self.name = name
        self.coll = coll
        self.mirror = mirror
        self.kind = kind


def gen_history(rng, big):
    shape = rand_shape(rng, 3, 9 if big else 7, allow_zero=False, min_ndim=1, max_size=2000)
    dtype = rng.choice(["f8", "f8", "i8", "i4"])
    steps = [{"a": "base", "shape": list(shape), "dtype": dtype, "chunks": [list(c) for c in rand_chunks(rng, shape)], "seed": rng.randrange(10**6)}]
    n = rng.randint(8, 25) if big else rng.randint(5, 16)
    for _ in range(n):
        r = rng.random()
        if r < 0.3:
            steps.append({"a": "derive", "kind": rng.choice(["slice", "add", "T", "sum", "copy", "neg_step", "mul_self"]), "seed": rng.randrange(10**6)})
        elif r < 0.65:
            steps.append({"a": "assign", "key": rng.choice(["int", "slice", "neg_step", "ellipsis", "np_mask", "da_mask", "int_list", "full", "int_and_slice", "da_int", "da_int"]), "value": rng.choice(["scalar", "scalar", "np_array", "np_broadcast", "da_array", "masked"]), "seed": rng.randrange(10**6)})
        elif r < 0.75:
            steps.append({"a": "out", "where": rng.random() < 0.4, "seed": rng.randrange(10**6)})
        elif r < 0.82:
            steps.append({"a": "chunk_sizes", "seed": rng.randrange(10**6)})
        elif r < 0.9:
            steps.append({"a": "keys", "seed": rng.randrange(10**6)})
        else:
            steps.append({"a": "compute", "seed": rng.randrange(10**6)})
    return steps


def make_key(kind, shape, r):
    """Return (numpy key, dask key builder) for the given key kind; dask key builder takes the dask array x."""
    nd = len(shape)
    n0 = shape[0]
    if kind == "int":
        k = r.randrange(-n0, n0)
        return (k,), None
    if kind == "slice":
        a = r.randrange(0, n0)
        b = r.randrange(a, n0 + 1)
        key = [slice(a, b, r.choice([None, 1, 2]))]
        if nd > 1 and r.random() < 0.5:
            n1 = shape[1]
            a1 = r.randrange(0, n1)
            key.append(slice(a1, r.randrange(a1, n1 + 1)))
        return tuple(key), None
    if kind == "neg_step":
        return (slice(None, None, r.choice([-1, -2])),), None
    if kind == "ellipsis":
        return (Ellipsis, r.randrange(-shape[-1], shape[-1])), None
    if kind == "full":
        return (slice(None),) * nd, None
    if kind == "int_and_slice":
        if nd < 2:
            return (r.randrange(-n0, n0),), None
        n1 = shape[1]
        a1 = r.randrange(0, n1)
        return (r.randrange(-n0, n0), slice(a1, r.randrange(a1, n1 + 1))), None
    if kind == "int_list":
        k = sorted({r.randrange(0, n0) for _ in range(r.randint(1, max(1, min(4, n0))))})
        return (k,), None
    if kind == "da_int":
        # a dask integer array as the key: distinct positions, some written as negatives, usually fewer than the axis has
        m = r.randint(1, max(1, min(5, n0)))
        pos = r.sample(range(n0), m)
        k = [p_ - n0 if r.random() < 0.5 else p_ for p_ in pos]
        if nd > 1 and r.random() < 0.4:
            n1 = shape[1]
            a1 = r.randrange(0, n1)
            return (k, slice(a1, r.randrange(a1, n1 + 1))), "da_int"
        return (k,), "da_int"
    if kind in ("np_mask", "da_mask"):
        return "mask", kind
    raise ValueError(kind)


def run_history(steps, ctx):
    import dask_array as da

    problems = []
    live = []
    sources = []
    base = None
    nmut = 0

    def mech_raise(label, e):
        return f"{label}:raise:{type(e).__name__}:{exc_site(e)}:{msg_key(e)}"

    def check(l, label, stepno):
        ctx.count("collections_checked")
        try:
            got = l.coll.compute()
        except Exception as e:
            problems.append((f"{label}_compute_raises", f"step {stepno}: computing {l.name} ({l.kind}) raised {short_tb(e)}", mech_raise(label + ":" + l.kind, e)))
            return False
        why = same(l.mirror, got, 0, 1.0)
        if why:
            problems.append((label, f"step {stepno}: {l.name} ({l.kind}) {why}", f"{label}:{l.kind}:{why.split()[0]}"))
            return False
        return True

    def check_all(stepno, mutated=None, info=""):
        ok = True
        for l in live:
            label = "mutated_array_wrong" if l is mutated else "other_collection_changed"
            if not check(l, label + (":" + info if l is mutated and info else ""), stepno):
                ok = False
        for a, copy in sources:
            ctx.count("sources_audited")
            if not np_equal(copy, a):
                problems.append(("source_mutated", f"step {stepno}: a NumPy array passed to from_array was modified", "source_mutated"))
                ok = False
        return ok

    for stepno, s in enumerate(steps):
        r = random.Random(s.get("seed", 0))
        a = s["a"]
        if problems:
            break
        if a == "base":
            arr = leaf_values(tuple(s["shape"]), s["dtype"], "perm", s["seed"])
            sources.append((arr, arr.copy()))
            x = da.from_array(arr, chunks=tuple(tuple(c) for c in s["chunks"]))
            base = Live("x", x, arr.copy(), "base")
            live.append(base)
            continue
        x, xm = base.coll, base.mirror
        if a == "derive":
            k = s["kind"]
            try:
                if k == "slice":
                    n0 = xm.shape[0]
                    lo = r.randrange(0, n0)
                    hi = r.randrange(lo, n0 + 1)
                    c, m = x[lo:hi], xm[lo:hi].copy()
                elif k == "neg_step":
                    c, m = x[::-1], xm[::-1].copy()
                elif k == "add":
                    c, m = x + 1, xm + 1
                elif k == "mul_self":
                    c, m = x * x[..., :1], xm * xm[..., :1]
                elif k == "T":
                    c, m = x.T, xm.T.copy()
                elif k == "sum":
                    c, m = x.sum(axis=0), xm.sum(axis=0)
                else:
                    c, m = x.copy(), xm.copy()
            except Exception as e:
                ctx.tab("derive_refused", f"{k}:{type(e).__name__}")
                continue
            if c is x:
                # x.T of a 1-d array, a full slice: the library hands back x itself, there is no other collection
                ctx.count("derivation_returned_x_itself")
                continue
            live.append(Live(f"d{stepno}", c, np.asarray(m), "derived_" + k))
            ctx.tab("derivations", k)
            if r.random() < 0.4:
                check(live[-1], "derived_wrong_at_birth", stepno)
        elif a == "assign":
            key, mk = make_key(s["key"], xm.shape, r)
            thr = r.randint(-3, 3)
            if key == "mask":
                npkey = xm > thr
                dkey = npkey if mk == "np_mask" else (x > thr)
            else:
                npkey = key if len(key) > 1 else key[0]
                dkey = npkey
                if mk == "da_int":
                    dk0 = da.from_array(np.array(key[0], dtype=np.int64), chunks=max(1, (len(key[0]) + 1) // 2))
                    dkey = (dk0,) + tuple(key[1:]) if len(key) > 1 else dk0
            sel_shape = np.empty(xm.shape, dtype=bool)[npkey].shape
            vk = s["value"]
            if mk == "da_int" and r.random() < 0.7:
                vk = "scalar"  # array values through a dask integer key are a recorded finding: keep them a minority
            if key == "mask" and vk in ("np_array", "np_broadcast", "da_array", "masked"):
                vk = "scalar"
            rv = np.random.default_rng(s["seed"])
            if vk == "scalar" or int(np.prod(sel_shape)) == 0 or len(sel_shape) == 0:
                vk = "scalar"
                val = dval = int(rv.integers(-50, 50))
            else:
                if vk == "np_broadcast":
                    vshape = tuple(1 if r.random() < 0.5 else k for k in sel_shape)
                else:
                    vshape = sel_shape
                val = (rv.integers(-40, 40, size=vshape)).astype(xm.dtype)
                dval = val
                if vk == "da_array":
                    dval = da.from_array(val, chunks=tuple(max(1, (k + 1) // 2) for k in vshape))
                elif vk == "masked":
                    if xm.dtype.kind != "f":
                        vk = "np_array"
                    else:
                        val = np.ma.array(val, mask=rv.random(vshape) < 0.4)
                        dval = val
            # key-level reads before the mutation populate per-collection caches
            if r.random() < 0.5:
                try:
                    x.__dask_keys__()
                    if r.random() < 0.5:
                        x.compute()
                except Exception:
                    pass
            try:
                x[dkey] = dval
            except (NotImplementedError, ValueError, IndexError, TypeError) as e:
                ctx.tab("assign_refused", f"{s['key']}:{vk}:{type(e).__name__}")
                continue
            m2 = np.ma.array(xm.copy()) if isinstance(val, np.ma.MaskedArray) else xm.copy()
            m2[npkey] = val
            base.mirror = m2
            nmut += 1
            ctx.tab("assignments", f"{s['key']}|{vk}")
            ctx.count("mutations")
            others = len(live) - 1
            multi = int(np.prod(x.numblocks)) >= 2
            ctx.seen((s["key"], vk, tuple(sorted(l.kind for l in live[1:]))), multi and others >= 2)
            check_all(stepno, base, f"{s['key']}|{vk}")
            if isinstance(val, np.ma.MaskedArray):
                break  # masked results are terminal (see vf.gen)
        elif a == "out":
            try:
                b = da.from_array(np.full(xm.shape, 3, dtype=xm.dtype), chunks=x.chunks)
                if s["where"]:
                    w = xm > 0
                    da.add(x, b, where=da.from_array(w, chunks=x.chunks), out=x)
                    m2 = xm.copy()
                    np.add(xm, 3, where=w, out=m2)
                else:
                    da.add(x, b, out=x)
                    m2 = xm + np.asarray(3, dtype=xm.dtype)
            except Exception as e:
                ctx.tab("out_refused", type(e).__name__)
                continue
            base.mirror = m2
            nmut += 1
            ctx.count("mutations")
            ctx.tab("assignments", "out=" + ("where" if s["where"] else "plain"))
            check_all(stepno, base, "out")
        elif a == "chunk_sizes":
            if xm.ndim != 1:
                continue
            thr = r.randint(-3, 3)
            try:
                y = x[x > thr]
                ym = xm[xm > thr]
                yl = Live(f"u{stepno}", y, ym.copy(), "unknown_chunks")
                live.append(yl)
                z = y + 1  # derived before sizes are known
                live.append(Live(f"u{stepno}+1", z, ym + 1, "derived_from_unknown"))
                y.compute_chunk_sizes()
            except Exception as e:
                ctx.tab("chunk_sizes_refused", type(e).__name__)
                continue
            ctx.count("mutations")
            ctx.tab("assignments", "compute_chunk_sizes")
            try:
                sizes = tuple(y.chunks[0])
                if any(c != c for c in sizes) or sum(sizes) != len(ym):
                    problems.append(("chunk_sizes_wrong", f"step {stepno}: compute_chunk_sizes left chunks {y.chunks} for {len(ym)} selected elements", "compute_chunk_sizes:wrong_sizes"))
            except Exception:
                pass
            check_all(stepno, yl, "compute_chunk_sizes")
        elif a == "keys":
            # the graph must define exactly the advertised keys and they must assemble to the mirror
            l = r.choice(live)
            try:
                keys = l.coll.__dask_keys__()
                dsk = sched.materialize(l.coll)
                run = sched.execute(dsk, order="lifo", check_mutation=False)
                got = sched.assemble(keys, run.values)
                ctx.count("key_level_reads")
                why = same(l.mirror, got, 0, 1.0)
                if why:
                    problems.append(("keys_denote_stale_array", f"step {stepno}: assembling {l.name}.__dask_keys__() from its graph: {why}", f"key_level_read:{l.kind}:{why.split()[0]}"))
                d = l.coll.to_delayed()
                flat = list(np.asarray(d, dtype=object).ravel())
                vals = dask.compute(*flat, scheduler="sync")
                tot = sum(int(np.size(v)) for v in vals)
                if tot != l.mirror.size:
                    problems.append(("to_delayed_wrong", f"step {stepno}: to_delayed blocks hold {tot} elements, array has {l.mirror.size}", f"to_delayed:{l.kind}:size"))
                elif l.mirror.size and not np.isclose(float(np.nansum([np.nansum(np.ma.filled(v, 0)) for v in vals])), float(np.nansum(np.ma.filled(l.mirror, 0)))):
                    problems.append(("to_delayed_wrong", f"step {stepno}: to_delayed blocks of {l.name} do not hold the array's values", f"to_delayed:{l.kind}:values"))
            except sched.GraphProblem as e:
                problems.append(("keys_not_in_graph", f"step {stepno}: {l.name}: {e}", f"key_level_read:{l.kind}:graph_{e.kind}"))
            except KeyError as e:
                problems.append(("keys_not_in_graph", f"step {stepno}: {l.name}: advertised key {e} is not produced by the graph", f"key_level_read:{l.kind}:missing_key"))
            except Exception as e:
                problems.append(("key_level_read_raises", f"step {stepno}: {l.name}: {short_tb(e)}", mech_raise("key_level_read:" + l.kind, e)))
        elif a == "compute":
            check(r.choice(live), "other_collection_changed", stepno)
    if not problems:
        check_all(len(steps), None)
    return problems, nmut, len(live)


def run_one(rng, ctx):
    steps = gen_history(rng, ctx.tier == "thorough")
    case = {"history": steps}
    ctx.current_case = case
    problems, nmut, nlive = run_history(steps, ctx)
    ctx.count("histories")
    ctx.mx("max_live_collections", nlive)
    if len(ctx.samples) < 2 and nmut >= 2:
        ctx.sample({"history": [{k: v for k, v in s.items() if k != "seed"} for s in steps]})
    seen = set()
    for kind, msg, mech in problems:
        if mech in seen:
            continue
        seen.add(mech)
        ctx.violation(kind, f"{msg}\n  history: {[{k: v for k, v in s.items() if k != 'seed'} for s in steps]}", case=case, mech=mech)


def replay_case(case, ctx):
    problems, _, _ = run_history(case["history"], ctx)
    seen = set()
    for kind, msg, mech in problems:
        if mech not in seen:
            seen.add(mech)
            ctx.violation(kind, msg, case=case, mech=mech)


def finalize(ctx):
    if ctx.counters.get("mutations", 0) == 0:
        ctx.inconc("no in-place operation was applied")
    if ctx.counters.get("collections_checked", 0) == 0:
        ctx.inconc("no collection was checked after a mutation")
