"""C07 - names are deterministic and survive serialization (cross-interpreter and pickle monitors)."""

from __future__ import annotations

import json
import os
import pickle
import random
import subprocess
import tempfile

import numpy as np

from vf.common import PY, REPO, VERIF, h64
from vf.gen import Prog, ReplayRefused

PROPERTY = "C07"
WORKERS = {"quick": 16, "thorough": 16}
TIME = {"quick": 45, "thorough": 240}
BATCH = {"quick": 40, "thorough": 60}
TECHNIQUE = (
    "runtime monitoring across interpreters: each worker generates programs (G plus seeded random-array leaves), reports every collection "
    "name, the optimized graph's key set, chunks, dtype, Frisky output keys and a value hash, then fresh interpreters with PYTHONHASHSEED "
    "0, 1 and 12345 rebuild the same programs from their JSON and must report the same; every output collection is cloudpickled (before and "
    "after it was computed/optimized) and unpickled both in-process and in a fresh interpreter, where name, keys, chunks, dtype, Frisky keys "
    "and values must be unchanged"
)
RULE = (
    "programs of 1-6 steps over tokenizable inputs (NumPy leaves, creation routines, seeded default_rng / RandomState / MT19937 / Philox "
    "random arrays incl. array-valued parameters, module-level kernels). Per batch of 40 programs: in-process rebuild (names equal), 3 fresh "
    "interpreters (hash seeds 0/1/12345) compared field by field with the building worker, cloudpickle round trip in-process and into a "
    "fresh interpreter. distinct = op sequence; non-trivial = >=2 non-leaf ops and >=2 blocks, compared in >=3 interpreters"
)
ASSUMPTIONS = [
    "cross-process determinism is sampled over three hash seeds on one machine and one NumPy build",
    "value hashes compare bit patterns: the same graph on the same machine must give the same bits",
]
WEIGHTS = {"#map_blocks": 2.0, "#reduction": 1.3, "#rechunk": 1.5, "#window": 1.2, "#linalg": 0.5}
HASH_SEEDS = ["0", "1", "12345"]


def child(mode, path, outp, hashseed):
    env = dict(os.environ)
    env["PYTHONPATH"] = f"{VERIF}:{REPO}"
    env["PYTHONHASHSEED"] = hashseed
    env["PYTHONDONTWRITEBYTECODE"] = "1"
    for k in ("OMP_NUM_THREADS", "OPENBLAS_NUM_THREADS", "MKL_NUM_THREADS"):
        env[k] = "1"
    try:
        p = subprocess.run([PY, "-m", "vf.c07_child", mode, path, outp], env=env, cwd=VERIF, capture_output=True, text=True, timeout=600)
    except subprocess.TimeoutExpired:
        return None, "timeout"
    if p.returncode != 0 or not os.path.exists(outp):
        return None, p.stderr[-400:]
    return json.load(open(outp)), None


def gen_program(rng, big):
    g = Prog(rng, max_extent=7, max_size=2500, weights=WEIGHTS)
    if rng.random() < 0.3:
        g.add_leaf("random")
        if rng.random() < 0.4:
            g.add_leaf()
    else:
        for _ in range(rng.choice([1, 1, 2])):
            g.add_leaf()
    if not g.vars:
        return None
    for _ in range(rng.randint(1, 8 if big else 6)):
        g.step()
    non_leaf = [v for v, s in zip(g.vars, g.steps) if s["in"] and v.da is not None]
    v = non_leaf[-1] if non_leaf else g.vars[-1]
    steps = g.closure(v.id)
    return steps


FIELDS = ["var_names", "name", "chunks", "dtype", "keys", "frisky_keys", "opt_keys", "value"]


def compare_reports(ref, other, label, prog, ctx, problems, case):
    if "refused" in ref or "refused" in other:
        if ("refused" in ref) != ("refused" in other):
            problems.append(("rebuild_refused_in_one_interpreter", f"{label}: {ref.get('refused')} vs {other.get('refused')}", f"{label}:refusal_differs", case))
        return
    if "unpickle_raises" in other:
        problems.append(("unpickle_raises", f"{label}: {other['unpickle_raises']}", f"{label}:unpickle_raises:{other['unpickle_raises'].split(':')[0]}", case))
        return
    for f in FIELDS:
        if f not in ref or f not in other:
            continue
        ctx.count("fields_compared")
        if ref[f] != other[f]:
            detail = ""
            mech = f"{label}:{f}_differs"
            if f == "var_names":
                idx = [i for i, (a, b) in enumerate(zip(ref[f], other[f])) if a != b]
                first = idx[0] if idx else -1
                op = prog["steps"][first]["op"] if 0 <= first < len(prog["steps"]) else "?"
                detail = f" first differing variable {first} ({op}): {ref[f][first] if first >= 0 else None} vs {other[f][first] if first >= 0 else None}"
                mech = f"{label}:name_differs:{op}"
            elif f == "opt_keys":
                a, b = set(ref.get("opt_key_names", [])), set(other.get("opt_key_names", []))
                only = sorted(a ^ b)
                kinds = sorted({str(n).split("-")[0] for n in only})
                detail = f" key names only on one side: {only[:4]}"
                mech = f"{label}:opt_keys_differ:{'+'.join(kinds[:3]) or 'same_names_different_blocks'}"
            elif f == "value" and (str(ref[f]).startswith("raises") or str(other[f]).startswith("raises")):
                if str(ref[f]).startswith("raises") and str(other[f]).startswith("raises"):
                    continue  # the program does not compute anywhere: C01's business
            problems.append((f"{f}_differs", f"{label}: {f} {str(ref[f])[:120]} vs {str(other[f])[:120]}{detail}", mech, case))
            if f in ("var_names", "name"):
                break


def run_batch(programs, ctx, rng, tmp):
    problems = []
    from vf.c07_child import build_reports, report_collection

    # the worker itself is interpreter number one (hash seed 0)
    ref = build_reports(programs)
    ctx.count("programs_built", len(programs))
    # (a) in-process rebuild
    again = build_reports(programs)
    for i, (a, b) in enumerate(zip(ref, again)):
        compare_reports(a, b, "in_process_rebuild", programs[i], ctx, problems, {"steps": programs[i]["steps"]})
    # (b) fresh interpreters
    ppath = os.path.join(tmp, "progs.json")
    json.dump(programs, open(ppath, "w"))
    for hs in HASH_SEEDS:
        rep, err = child("build", ppath, os.path.join(tmp, f"rep_{hs}.json"), hs)
        if rep is None:
            ctx.inconc(f"child interpreter (hash seed {hs}) failed: {err}")
            continue
        ctx.count("interpreters_spawned")
        for i, (a, b) in enumerate(zip(ref, rep)):
            compare_reports(a, b, f"fresh_interpreter_hashseed_{hs}" if hs != "0" else "fresh_interpreter", programs[i], ctx, problems, {"steps": programs[i]["steps"], "hashseed": hs})
            ctx.count("cross_process_comparisons")
    # (c) pickling: before and after the collection was used
    import cloudpickle

    blobs_fresh, blobs_used, pre = [], [], []
    for prog in programs:
        try:
            g = Prog.replay(prog["steps"])
            x = g.vars[-1].da
            b1 = cloudpickle.dumps(x)
            r1 = report_collection(x)  # computes and optimizes: caches populated
            b2 = cloudpickle.dumps(x)
            blobs_fresh.append(b1)
            blobs_used.append(b2)
            pre.append(r1)
        except ReplayRefused:
            blobs_fresh.append(None)
            blobs_used.append(None)
            pre.append({"refused": "replay"})
        except Exception as e:
            blobs_fresh.append(None)
            blobs_used.append(None)
            pre.append({"refused": f"pickle failed: {type(e).__name__}: {str(e)[:100]}"})
            ctx.tab("pickle_failed", type(e).__name__)
    for tag, blobs in (("pickle_before_use", blobs_fresh), ("pickle_after_use", blobs_used)):
        for i, b in enumerate(blobs):
            if b is None:
                continue
            try:
                y = pickle.loads(b)
                r = report_collection(y)
            except Exception as e:
                r = {"unpickle_raises": f"{type(e).__name__}: {str(e)[:150]}"}
            ctx.count("pickle_round_trips")
            compare_reports(pre[i], r, f"{tag}:in_process", programs[i], ctx, problems, {"steps": programs[i]["steps"]})
        bpath = os.path.join(tmp, f"{tag}.pkl")
        pickle.dump(blobs, open(bpath, "wb"))
        rep, err = child("unpickle", bpath, os.path.join(tmp, f"rep_{tag}.json"), "12345")
        if rep is None:
            ctx.inconc(f"unpickling child failed: {err}")
            continue
        for i, r in enumerate(rep):
            if blobs[i] is None:
                continue
            ctx.count("pickle_round_trips_cross_process")
            compare_reports(pre[i], r, f"{tag}:fresh_interpreter", programs[i], ctx, problems, {"steps": programs[i]["steps"]})
    return problems


class _Handle:
    """An object dask cannot tokenize deterministically (it holds a lock): arrays of these get a random token."""

    def __init__(self, i):
        import threading

        self.i = i
        self.lock = threading.Lock()  # neither picklable nor tokenizable


def _ident(b):
    return b


def fixed_token_cases(ctx, rng):
    """Sources documented as untokenizable get a random token - but a FIXED one per instance: building the same program
    twice over one such instance (a from_array of lock-bearing objects, its persisted form, a custom-named array)
    gives the same name and the same keys both times."""
    import dask_array as da

    out = []
    for variant in ("from_array", "persisted", "persisted_slice"):
        n = rng.randint(2, 6)
        obj = np.empty(n, dtype=object)
        obj[:] = [_Handle(i) for i in range(n)]
        try:
            x = da.from_array(obj, chunks=rng.randint(1, n))
            base = x if variant == "from_array" else x.persist()
            if variant == "persisted_slice":
                base = base[1:]
            builds = []
            for _ in range(3):
                y = base.map_blocks(_ident, dtype=object)
                z = da.concatenate([y, base])
                builds.append((y.name, tuple(map(str, y.__dask_keys__())), z.name, tuple(sorted(map(str, z.optimize().__dask_graph__().keys())))))
        except Exception as e:
            ctx.tab("fixed_token_case_raised", f"{variant}:{type(e).__name__}")
            continue
        ctx.count("fixed_token_builds_compared", len(builds) - 1)
        for b in builds[1:]:
            for field, u, w in zip(("name", "keys", "name of a second consumer", "optimized key set"), builds[0], b):
                if u != w:
                    out.append(("instance_token_not_fixed", f"{variant}: the same program built twice over one untokenizable instance differs in {field}: {str(u)[:120]} vs {str(w)[:120]}", f"fixed_token:{variant}:{field.split()[0]}", {"steps": [], "fixed_token": variant}))
                    break
    return out


def run_all(ctx):
    from vf.common import now

    big = ctx.tier == "thorough"
    nb = 0
    seen_ft = set()
    for kind, msg, mech, case in fixed_token_cases(ctx, random.Random(f"{ctx.seed}:{ctx.index}:ft")):
        if mech not in seen_ft:
            seen_ft.add(mech)
            ctx.violation(kind, msg, case=case, mech=mech)
    while now() < ctx.deadline and nb < (12 if big else 3):
        rng = random.Random(f"{ctx.seed}:{ctx.index}:{nb}")
        programs = []
        for _ in range(BATCH[ctx.tier]):
            steps = gen_program(rng, big)
            if steps:
                programs.append({"steps": steps})
        tmp = tempfile.mkdtemp(prefix="c07_", dir=os.path.join(VERIF, "scratch") if os.path.isdir(os.path.join(VERIF, "scratch")) else None)
        try:
            problems = run_batch(programs, ctx, rng, tmp)
        finally:
            import shutil

            shutil.rmtree(tmp, ignore_errors=True)
        nb += 1
        ctx.evaluations += len(programs)
        for p in programs:
            sig = [(s["op"], s["p"].get("fn") if isinstance(s["p"], dict) else None) for s in p["steps"]]
            nops = sum(1 for s in p["steps"] if s["in"])
            multi = any(isinstance(c, list) and len(c) > 1 for s in p["steps"] if not s["in"] and isinstance(s["p"].get("chunks"), list) for c in s["p"]["chunks"])
            ctx.seen(sig, nops >= 2 and multi)
            for s in p["steps"]:
                ctx.tab("ops", s["op"])
            if len(ctx.samples) < 2 and nops >= 2:
                ctx.sample(p)
        seen = set()
        for kind, msg, mech, case in problems:
            if mech in seen:
                continue
            seen.add(mech)
            ctx.violation(kind, f"{msg}\n  program: {case['steps']}", case=case, mech=mech)
    ctx.count("batches", nb)


def replay_case(case, ctx):
    if case.get("fixed_token"):
        for kind, msg, mech, c in fixed_token_cases(ctx, random.Random(0)):
            ctx.violation(kind, msg, case=case, mech=mech)
        return
    tmp = tempfile.mkdtemp(prefix="c07_")
    try:
        problems = run_batch([{"steps": case["steps"]}], ctx, random.Random(0), tmp)
    finally:
        import shutil

        shutil.rmtree(tmp, ignore_errors=True)
    seen = set()
    for kind, msg, mech, c in problems:
        if mech not in seen:
            seen.add(mech)
            ctx.violation(kind, msg, case=case, mech=mech)


def finalize(ctx):
    if ctx.counters.get("cross_process_comparisons", 0) == 0:
        ctx.inconc("no cross-process comparison happened")
    if ctx.counters.get("pickle_round_trips_cross_process", 0) == 0:
        ctx.inconc("no cross-process pickle round trip happened")


RULE += (
    ' Fixed tokens: programs built three times over one untokenizable (lock-bearing) instance, its persisted form and a slice of it must agree in name, keys and optimized key set.'
)
