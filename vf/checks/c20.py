"""C20 - map_blocks block_info/block_id match the layout the call was built against (event-log checker)."""

from __future__ import annotations

import itertools

import dask
import numpy as np

from vf import rec
from vf.common import exc_site, msg_key, short_tb
from vf.gen import rand_chunks

PROPERTY = "C20"
WORKERS = {"quick": 16, "thorough": 16}
CASES = {"quick": 700, "thorough": 4200}
TIME = {"quick": 50, "thorough": 240}
TECHNIQUE = "runtime monitoring: a recording block function logs block_info/block_id and the block it received at every invocation; an offline checker compares the log with the layout recorded from arg.chunks/out.chunks at call time (exactly-once per output location, locations, shapes)"
RULE = (
    "map_blocks calls with 1-3 array inputs (broadcast ranks), new_axis/drop_axis, explicit chunks=, with and without dtype=/meta=, placed "
    "above layout-changing subtrees (sliding-window reductions, coarse-sliceable blockwise, rechunk of slice, reshape, concatenate + "
    "rechunk, dask-int indexing) and below slices / rechunks / reductions / shuffles. For the compute of the result: every output location "
    "of the advertised grid must be invoked exactly once; block_info[i] chunk-location/array-location/shape/num-chunks, block_info[None] "
    "chunk-location/array-location/chunk-shape and block_id must equal the layout recorded at call time; the block handed in must have the "
    "shape its advertised location implies; values must equal NumPy's. distinct = (producer kind, consumer kind, options, layouts); "
    "non-trivial = the optimized input layout differed from the advertised one (the ChunksFreeze/bridge cases) or >= 2 input blocks"
)
ASSUMPTIONS = ["the layout 'advertised when the call was made' is arg.chunks / out.chunks read by the harness immediately before/after the call"]
SW = np.lib.stride_tricks.sliding_window_view


def make_producer(rng, tier):
    """A dask array + NumPy mirror whose optimized layout may differ from the advertised one."""
    import dask_array as da

    nd = rng.choice([1, 2, 2, 3])
    shape = tuple(rng.randint(2, 9 if tier == "quick" else 14) for _ in range(nd))
    a = (np.arange(int(np.prod(shape)), dtype="f8") * 0.5 + 1).reshape(shape)
    x = da.from_array(a, chunks=rand_chunks(rng, shape))
    kind = rng.choice(["plain", "sliding", "sliding", "sliding_keep", "elem_slice", "rechunk_slice", "reshape", "concat_rechunk", "transpose", "daskint", "sliding_drift", "take_slice", "take_slice", "unify_flip_mb", "unify_flip_mb"])
    e = a
    if kind == "sliding_drift":
        # search for a layout whose optimized grid differs from the advertised one while coarse summaries (block
        # counts, widest block) agree: the drift a cheap comparison would overlook
        for _ in range(40):
            n = rng.randint(4, 14)
            ch = rand_chunks(rng, (n,))
            w = rng.randint(2, max(2, min(4, n - 1)))
            a1 = (np.arange(n, dtype="f8") * 0.5 + 1)
            x1 = da.from_array(a1, chunks=ch)
            fn = rng.choice(["sum", "max", "mean"])
            try:
                r = getattr(da.sliding_window_view(x1, w, axis=0), fn)(axis=-1)
                adv, nat = r.chunks, r.optimize().chunks
            except Exception:
                continue
            if adv != nat and tuple(map(len, adv)) == tuple(map(len, nat)) and tuple(map(max, adv)) == tuple(map(max, nat)):
                return kind, r, getattr(SW(a1, w, axis=0), fn)(axis=-1)
        kind = "sliding"
    if kind.startswith("sliding"):
        ax = rng.randrange(nd)
        w = rng.randint(1, shape[ax])
        fn = rng.choice(["sum", "max", "mean"])
        keep = kind == "sliding_keep"
        x = getattr(da.sliding_window_view(x, w, axis=ax), fn)(axis=-1, keepdims=keep)
        e = getattr(SW(a, w, axis=ax), fn)(axis=-1, keepdims=keep)
    elif kind == "elem_slice":
        sl = tuple(slice(rng.randint(0, 1), None) for _ in range(nd))
        x, e = (x * 2)[sl], (a * 2)[sl]
    elif kind == "rechunk_slice":
        sl = tuple(slice(0, max(1, s - rng.randint(0, 1))) for s in shape)
        x = x.rechunk(rand_chunks(rng, shape))[sl]
        e = a[sl]
    elif kind == "reshape" and nd >= 2:
        x, e = x.reshape(shape[0] * shape[1], *shape[2:]), a.reshape(shape[0] * shape[1], *shape[2:])
    elif kind == "concat_rechunk":
        x = da.concatenate([x, x + 1], axis=0)
        e = np.concatenate([a, a + 1], axis=0)
        x = x.rechunk(rand_chunks(rng, e.shape))
    elif kind == "transpose" and nd >= 2:
        x, e = x.T, a.T
    elif kind == "unify_flip_mb":
        # a plain map_blocks (which pins nothing) over an expression whose grid drifts through nested rewrites:
        # flips pushed into the operands of an elemwise of two differently chunked arrays
        a2 = a * 0.25 + 2
        y2 = da.from_array(a2, chunks=rand_chunks(rng, shape))
        sl = tuple(slice(None, None, -1) if rng.random() < 0.7 else slice(None) for _ in range(nd))
        x = ((x + y2)[sl] * 2).map_blocks(_plus_one, dtype="f8")
        e = ((a + a2)[sl] * 2) + 1
    elif kind == "take_slice":
        # a contiguous window of a fancy-indexed array: the slice may be pushed through the take, which regroups the blocks
        n = shape[0]
        if rng.random() < 0.5:
            idx = list(range(n))
            for i in range(0, n - 1, 2):
                if rng.random() < 0.7:
                    idx[i], idx[i + 1] = idx[i + 1], idx[i]
        else:
            idx = [rng.randrange(n) for _ in range(rng.randint(2, n + 3))]
        lo = rng.randint(0, max(0, len(idx) - 2))
        hi = rng.randint(lo + 1, len(idx))
        x, e = x[idx][lo:hi], a[idx][lo:hi]
        if rng.random() < 0.4:
            x, e = x + 1, e + 1
    elif kind == "daskint":
        n = shape[0]
        idx = np.array([rng.randrange(n) for _ in range(rng.randint(1, 5))])
        x, e = x[da.from_array(idx, chunks=max(1, len(idx) // 2))], a[idx]
    return kind, x, e


def _plus_one(b):
    return b + 1


def expected_layout(chunks):
    """location -> (array-location, shape) for a chunk grid."""
    offs = [np.concatenate([[0], np.cumsum(c)]).astype(int) for c in chunks]
    out = {}
    for loc in itertools.product(*[range(len(c)) for c in chunks]):
        aloc = [[int(offs[d][i]), int(offs[d][i + 1])] for d, i in enumerate(loc)]
        out[tuple(loc)] = (aloc, [int(chunks[d][i]) for d, i in enumerate(loc)])
    return out


def judge(rng, ctx):
    import dask_array as da

    rec.BLOCKLOG.clear()
    rec.PHASE["now"] = "build"
    kind, x, e = make_producer(rng, ctx.tier)
    opts = {"dtype": rng.random() < 0.6, "second": rng.random() < 0.3, "consumer": rng.choice(["none", "none", "slice", "rechunk", "sum", "elemwise", "index0"]), "fn": rng.choice(["info", "info", "id"])}
    case = {"producer": kind, "opts": opts, "shape": list(e.shape), "chunks": [list(map(float, c)) for c in x.chunks]}
    ctx.current_case = case
    in_chunks = [x.chunks]
    args = [x]
    e_sum = e
    if opts["second"] and e.ndim >= 1:
        b = (np.arange(e.shape[-1], dtype="f8") + 0.25)
        args.append(da.from_array(b, chunks=(x.chunks[-1],)))
        in_chunks.append((x.chunks[-1],))
        e_sum = e + b
    kw = {}
    if opts["dtype"]:
        kw = {"dtype": "f8", "meta": np.empty((0,) * e.ndim, dtype="f8")}
    try:
        if opts["fn"] == "info":
            y = da.map_blocks(rec.rec_block_info_fn, *args, tag="c20", **kw)
        else:
            y = da.map_blocks(_id_fn, *args, **kw)
    except Exception as ex:
        ctx.tab("refused_at_build", f"{type(ex).__name__}:{exc_site(ex)}")
        return case, []
    out_chunks = y.chunks
    adv_in = [expected_layout(c) for c in in_chunks]
    adv_out = expected_layout(out_chunks)
    # expected value
    offs = expected_layout(in_chunks[0])
    exp = np.array(e_sum, dtype="f8", copy=True)
    if opts["fn"] == "info":
        for loc, (aloc, shp) in offs.items():
            sl = tuple(slice(lo, hi) for lo, hi in aloc)
            exp[sl] += sum((i + 1) * lo for i, (lo, hi) in enumerate(aloc))
    else:
        for loc, (aloc, shp) in offs.items():
            sl = tuple(slice(lo, hi) for lo, hi in aloc)
            exp[sl] += sum((i + 1) * l for i, l in enumerate(loc))
    # consumer above the call
    z, ez = y, exp
    c = opts["consumer"]
    if c == "slice" and exp.ndim:
        sl = tuple(slice(rng.randint(0, 1), None) for _ in range(exp.ndim))
        z, ez = y[sl], exp[sl]
    elif c == "rechunk" and exp.ndim:
        z = y.rechunk(rand_chunks(rng, exp.shape))
    elif c == "sum":
        z, ez = y.sum(axis=0) if exp.ndim else y, exp.sum(axis=0) if exp.ndim else exp
    elif c == "elemwise":
        z, ez = y * 2 + 1, exp * 2 + 1
    elif c == "index0" and exp.ndim and exp.shape[0]:
        z, ez = y[0], exp[0]
    problems = []
    with rec.phase("execute"):
        try:
            got = z.compute()
        except Exception as ex:
            ctx.tab("compute_raised_left_to_C01", f"{type(ex).__name__}:{exc_site(ex)}:{msg_key(ex)}")
            return case, []
    calls = [cl for cl in (rec.BLOCKLOG.calls if opts["fn"] == "info" else _IDLOG) if cl["phase"] == "execute"]
    ctx.count("invocations_logged", len(calls))
    # settled layout differed?
    try:
        settled = type(x)(x.expr).optimize().chunks
        if tuple(settled) != tuple(x.chunks):
            ctx.count("settled_layout_differed_from_advertised")
            case["settled_differs"] = True
    except Exception:
        pass
    if opts["fn"] == "info":
        seen_locs = {}
        for cl in calls:
            bi = cl["block_info"]
            if not bi or bi.get("None") is None:
                problems.append(("missing_block_info", "block_info[None] missing", "missing_block_info"))
                break
            oloc = tuple(bi["None"]["chunk-location"])
            seen_locs[oloc] = seen_locs.get(oloc, 0) + 1
            if oloc not in adv_out:
                problems.append(("unknown_output_location", f"invocation for output chunk-location {oloc} which is not in the advertised grid {[len(c) for c in out_chunks]}", "unknown_output_location"))
                break
            aloc, shp = adv_out[oloc]
            if [list(p) for p in bi["None"]["array-location"]] != aloc or list(bi["None"]["chunk-shape"]) != shp:
                problems.append(("output_info_mismatch", f"block_info[None] for {oloc}: array-location {bi['None']['array-location']} chunk-shape {bi['None']['chunk-shape']}, advertised {aloc} {shp}", "output_info_mismatch"))
                break
            for i, lay in enumerate(adv_in):
                b = bi.get(str(i))
                if b is None:
                    continue
                iloc = tuple(b["chunk-location"])
                if iloc not in lay:
                    problems.append(("unknown_input_location", f"block_info[{i}] chunk-location {iloc} not in the advertised input grid", "unknown_input_location"))
                    break
                ialoc, ishp = lay[iloc]
                got_shape = cl["shape"] if i == 0 else cl["other_shapes"][i - 1]
                if [list(p) for p in b["array-location"]] != ialoc or list(b["num-chunks"]) != [len(cc) for cc in in_chunks[i]] or list(b["shape"]) != [int(sum(cc)) for cc in in_chunks[i]]:
                    problems.append(("input_info_mismatch", f"block_info[{i}] = {b}, advertised array-location {ialoc}", "input_info_mismatch"))
                    break
                if list(got_shape) != ishp:
                    problems.append(("block_shape_mismatch", f"input {i} block at advertised location {iloc} has shape {got_shape}, its location implies {ishp}", "block_shape_mismatch"))
                    break
            if problems:
                break
        if not problems and c in ("none", "rechunk", "elemwise", "sum"):
            ctx.count("exactly_once_checks")
            missing = [l for l in adv_out if seen_locs.get(l, 0) == 0]
            dup = [l for l, n in seen_locs.items() if n > 1]
            if missing:
                problems.append(("location_not_invoked", f"{len(missing)} advertised output locations were never invoked, e.g. {missing[0]}", "location_not_invoked"))
            if dup:
                problems.append(("location_invoked_twice", f"output location {dup[0]} invoked {seen_locs[dup[0]]} times in one compute", "location_invoked_twice"))
    else:
        for cl in calls:
            bid = tuple(cl["block_id"])
            if bid not in adv_out:
                problems.append(("unknown_block_id", f"block_id {bid} not in the advertised grid", "unknown_block_id"))
                break
            if list(cl["shape"]) != adv_in[0].get(bid, (None, None))[1]:
                problems.append(("block_shape_mismatch", f"block_id {bid}: block shape {cl['shape']}, advertised {adv_in[0].get(bid)}", "block_shape_mismatch"))
                break
    from vf.oracles import same

    why = same(ez, got, 1, float(np.abs(ez).max()) if ez.size else 1.0, check_dtype=False)
    ctx.count("values_compared")
    if why and not problems:
        problems.append(("values", f"result differs from NumPy: {why}", f"values:{why.split()[0]}"))
    return case, problems


_IDLOG = []
_AXLOG = []


def _ax_fn(x, *others, block_info=None, mode=None, axes=None, rep=None):
    """Kernel for the drop_axis / new_axis / chunks= calls: logs what it was told and what it was given."""
    x = np.asarray(x)
    if mode == "drop":
        out = x.sum(axis=tuple(axes))
        for o, how in zip(others, rep):
            o = np.asarray(o)
            out = out + (o.sum() if how == "dropped" else o)
    elif mode == "new":
        out = x
        for o in others:
            out = out + np.asarray(o)
        for a in sorted(axes):
            out = np.expand_dims(out, a)
    else:  # explicit chunks=: every block repeated along one axis
        out = x
        for o in others:
            out = out + np.asarray(o)
        out = np.repeat(out, rep, axis=axes[0])
    if block_info is not None:
        info = {}
        for k, v in block_info.items():
            info[str(k)] = None if v is None else {kk: (str(vv) if kk == "dtype" else [list(p) if isinstance(p, (tuple, list)) else p for p in vv] if isinstance(vv, (tuple, list)) else vv) for kk, vv in v.items()}
        _AXLOG.append({"phase": rec.PHASE["now"], "info": info, "shapes": [list(x.shape)] + [list(np.shape(o)) for o in others], "out_shape": list(np.shape(out))})
    return out


def judge_axes(rng, ctx):
    """map_blocks with drop_axis / new_axis / explicit chunks= and 1-3 inputs of different rank."""
    import dask_array as da
    from vf.oracles import same

    del _AXLOG[:]
    rec.PHASE["now"] = "build"
    kind, x, e = make_producer(rng, ctx.tier)
    mode = rng.choice(["drop", "drop", "new", "chunks"])
    nothers = rng.choice([0, 1, 1, 2])
    opts = {"mode": mode, "others": nothers, "dtype": rng.random() < 0.7, "consumer": rng.choice(["none", "none", "slice", "rechunk", "elemwise"])}
    case = {"producer": kind, "opts": opts, "shape": list(e.shape), "chunks": [list(map(float, c)) for c in x.chunks], "axes_call": True}
    ctx.current_case = case
    R = e.ndim
    if R == 0 or (mode == "drop" and R < 1):
        return case, []
    args, enp, in_chunks = [x], [e], [x.chunks]
    for k in range(nothers):
        r = rng.randint(1, R) if k == 0 else rng.randint(1, R)
        shp = e.shape[R - r :]
        b = (np.arange(int(np.prod(shp)), dtype="f8") * 0.25 + k + 1).reshape(shp)
        ch = tuple(x.chunks[R - r :])
        args.append(da.from_array(b, chunks=ch))
        enp.append(b)
        in_chunks.append(ch)
    # axis labels as map_blocks assigns them: position j of a rank-r input aligns with output position R - r + j
    kw = {}
    if mode == "drop":
        nd_drop = rng.randint(1, min(2, R))
        axes = sorted(rng.sample(range(R), nd_drop))
        if rng.random() < 0.3:
            axes_arg = [a - R for a in axes]
        else:
            axes_arg = axes if len(axes) > 1 or rng.random() < 0.5 else axes[0]
        kw["drop_axis"] = axes_arg
        rep = []
        exp = e.sum(axis=tuple(axes))
        for b in enp[1:]:
            r = b.ndim
            pos = [R - r + j for j in range(r)]
            if all(p_ in axes for p_ in pos):
                rep.append("dropped")
                exp = exp + b.sum()
            elif any(p_ in axes for p_ in pos):
                return case, []  # partially dropped lower-rank input: the kernel would need its own reduction; not modelled
            else:
                rep.append("kept")
                exp = exp + b
        fkw = {"mode": "drop", "axes": axes, "rep": rep}
        out_chunks_expected = tuple(c for i, c in enumerate(x.chunks) if i not in axes)
    elif mode == "new":
        k = rng.randint(1, 2)
        axes = sorted(rng.sample(range(R + k), k))
        kw["new_axis"] = axes if k > 1 or rng.random() < 0.5 else axes[0]
        exp = e
        for b in enp[1:]:
            exp = exp + b
        for a in axes:
            exp = np.expand_dims(exp, a)
        fkw = {"mode": "new", "axes": axes}
        oc = list(x.chunks)
        for a in axes:
            oc.insert(a, (1,))
        out_chunks_expected = tuple(oc)
    else:
        a = rng.randrange(R)
        repn = rng.randint(2, 3)
        exp = e
        for b in enp[1:]:
            exp = exp + b
        # blocks are repeated one by one: the result is the block-wise repeat
        offs = np.concatenate([[0], np.cumsum(x.chunks[a])]).astype(int)
        exp = np.concatenate([np.repeat(np.take(exp, range(offs[i], offs[i + 1]), axis=a), repn, axis=a) for i in range(len(x.chunks[a]))], axis=a)
        oc = list(x.chunks)
        oc[a] = tuple(int(c) * repn for c in x.chunks[a])
        out_chunks_expected = tuple(oc)
        kw["chunks"] = out_chunks_expected
        fkw = {"mode": "chunks", "axes": [a], "rep": repn}
    if opts["dtype"]:
        kw["dtype"] = "f8"
    if any(np.isnan(c).any() for c in map(np.asarray, x.chunks)):
        return case, []
    try:
        y = da.map_blocks(_ax_fn, *args, **kw, **fkw)
    except Exception as ex:
        ctx.tab("refused_at_build", f"axes:{mode}:{type(ex).__name__}:{exc_site(ex)}")
        return case, []
    problems = []
    ctx.tab("axes_calls", f"{mode}|others={nothers}")
    if tuple(tuple(int(c) for c in d) for d in y.chunks) != tuple(tuple(int(c) for c in d) for d in out_chunks_expected):
        problems.append(("advertised_chunks", f"map_blocks({mode}, {kw}) advertises chunks {y.chunks}, the call implies {out_chunks_expected}", f"axes:{mode}:advertised_chunks"))
        return case, problems
    adv_out = expected_layout(y.chunks)
    # model of block_info[i]: a dropped axis counts as one chunk spanning the whole axis
    dropped = set(fkw["axes"]) if mode == "drop" else set()
    new_axes = set(fkw["axes"]) if mode == "new" else set()
    if mode == "new":
        survivors = [p_ for p_ in range(R + len(new_axes)) if p_ not in new_axes]  # output positions of input axes 0..R-1
        out_pos_of_in = {i: survivors[i] for i in range(R)}
    elif mode == "drop":
        kept = [i for i in range(R) if i not in dropped]
        out_pos_of_in = {i: n for n, i in enumerate(kept)}
    else:
        out_pos_of_in = {i: i for i in range(R)}
    z, ez = y, exp
    c = opts["consumer"]
    if c == "slice" and exp.ndim:
        sl = tuple(slice(rng.randint(0, 1), None) for _ in range(exp.ndim))
        z, ez = y[sl], exp[sl]
    elif c == "rechunk" and exp.ndim:
        z = y.rechunk(rand_chunks(rng, exp.shape))
    elif c == "elemwise":
        z, ez = y * 2 + 1, exp * 2 + 1
    with rec.phase("execute"):
        try:
            got = z.compute()
        except Exception as ex:
            ctx.tab("compute_raised_left_to_C01", f"axes:{mode}:{type(ex).__name__}:{exc_site(ex)}:{msg_key(ex)}")
            return case, []
    calls = [cl for cl in _AXLOG if cl["phase"] == "execute"]
    ctx.count("invocations_logged", len(calls))
    ctx.count("axes_invocations_logged", len(calls))
    seen_locs = {}
    for cl in calls:
        bi = cl["info"]
        o = bi.get("None")
        if o is None:
            problems.append(("missing_block_info", "block_info[None] missing", f"axes:{mode}:missing_block_info"))
            break
        oloc = tuple(o["chunk-location"])
        seen_locs[oloc] = seen_locs.get(oloc, 0) + 1
        if oloc not in adv_out:
            problems.append(("unknown_output_location", f"{mode}: output chunk-location {oloc} not in the advertised grid {[len(cc) for cc in y.chunks]}", f"axes:{mode}:unknown_output_location"))
            break
        aloc, shp = adv_out[oloc]
        if [list(p_) for p_ in o["array-location"]] != aloc or list(o["chunk-shape"]) != shp:
            problems.append(("output_info_mismatch", f"{mode}: block_info[None] for {oloc}: array-location {o['array-location']} chunk-shape {o['chunk-shape']}, advertised {aloc} {shp}", f"axes:{mode}:output_info_mismatch"))
            break
        if cl["out_shape"] != shp:
            problems.append(("returned_shape", f"{mode}: the kernel's result for {oloc} has shape {cl['out_shape']}, block_info[None] chunk-shape says {shp}", f"axes:{mode}:returned_shape"))
            break
        for i, ch in enumerate(in_chunks):
            b = bi.get(str(i))
            if b is None:
                problems.append(("missing_input_info", f"{mode}: block_info[{i}] missing", f"axes:{mode}:missing_input_info"))
                break
            r = len(ch)
            eloc, ealoc, eshape, enum = [], [], [], []
            for j_ in range(r):
                pos = R - r + j_  # position in the highest-rank input
                if pos in dropped:
                    eloc.append(0)
                    ealoc.append([0, int(sum(ch[j_]))])
                    eshape.append(int(sum(ch[j_])))
                    enum.append(1)
                else:
                    bi_ = oloc[out_pos_of_in[pos]]
                    off = int(sum(ch[j_][:bi_]))
                    eloc.append(bi_)
                    ealoc.append([off, off + int(ch[j_][bi_])])
                    eshape.append(int(ch[j_][bi_]))
                    enum.append(len(ch[j_]))
            if list(b["chunk-location"]) != eloc or [list(p_) for p_ in b["array-location"]] != ealoc or list(b["num-chunks"]) != enum or list(b["shape"]) != [int(sum(cc)) for cc in ch]:
                problems.append(("input_info_mismatch", f"{mode} axes={fkw['axes']}: block_info[{i}] = {b} for output {oloc}; the advertised layout {ch} implies chunk-location {eloc} array-location {ealoc} num-chunks {enum}", f"axes:{mode}:input_info_mismatch"))
                break
            if cl["shapes"][i] != eshape:
                problems.append(("block_shape_mismatch", f"{mode} axes={fkw['axes']}: input {i} block for output {oloc} has shape {cl['shapes'][i]}, its location implies {eshape}", f"axes:{mode}:block_shape_mismatch"))
                break
        if problems:
            break
    if not problems and c in ("none", "rechunk", "elemwise"):
        ctx.count("exactly_once_checks")
        missing = [l for l in adv_out if seen_locs.get(l, 0) == 0]
        dup = [l for l, n in seen_locs.items() if n > 1]
        if missing:
            problems.append(("location_not_invoked", f"{mode}: {len(missing)} advertised output locations never invoked, e.g. {missing[0]}", f"axes:{mode}:location_not_invoked"))
        if dup:
            problems.append(("location_invoked_twice", f"{mode}: output location {dup[0]} invoked {seen_locs[dup[0]]} times", f"axes:{mode}:location_invoked_twice"))
    why = same(ez, got, 1, float(np.abs(ez).max()) if ez.size else 1.0, check_dtype=False)
    ctx.count("values_compared")
    if why and not problems:
        problems.append(("values", f"{mode}: result differs from NumPy: {why}", f"axes:{mode}:values:{why.split()[0]}"))
    try:
        settled = type(x)(x.expr).optimize().chunks
        if tuple(settled) != tuple(x.chunks):
            ctx.count("settled_layout_differed_from_advertised")
            case["settled_differs"] = True
    except Exception:
        pass
    return case, problems


def _id_fn(x, *others, block_id=None):
    out = np.asarray(x)
    for o in others:
        out = out + o
    if block_id is None:  # dtype-inference probe
        return out
    _IDLOG.append({"phase": rec.PHASE["now"], "block_id": list(block_id), "shape": list(np.shape(x))})
    return out + sum((i + 1) * l for i, l in enumerate(block_id))


_SBLOG = []


def _single_block_second(x, v, block_info=None):
    """Kernel for a second input that ADVERTISES one block: it is handed whole to every call and sliced here by the
    first input's array location.  Logs what it was told about v and what it was given."""
    x = np.asarray(x)
    v = np.asarray(v)
    if block_info is None:
        return x
    info1 = block_info.get(1)
    loc = block_info[0]["array-location"][-1]
    _SBLOG.append({"phase": rec.PHASE["now"], "v_shape": list(v.shape), "told_shape": [int(hi) - int(lo) for lo, hi in info1["array-location"]] if info1 else None, "told_loc": [list(p) for p in info1["array-location"]] if info1 else None, "told_nchunks": list(info1["num-chunks"]) if info1 else None})
    if info1 is not None and v.shape == tuple(info1["shape"]):
        return x + v[loc[0] : loc[1]]
    return x


def judge_single_block_second(rng, ctx):
    """A block_info consumer with two inputs; the second one advertises ONE block (so it is broadcast whole to every
    call) but its expression settles on as many blocks as the first input has along that axis."""
    import dask_array as da
    from vf.oracles import same

    del _SBLOG[:]
    rec.PHASE["now"] = "build"
    k = rng.randint(2, 5)
    sizes = [rng.randint(1, 5) for _ in range(k)]
    L = sum(sizes)
    lead = rng.choice([0, 0, rng.randint(1, 3)])
    shape = ((lead,) if lead else ()) + (L,)
    a = (np.arange(int(np.prod(shape)), dtype="f8") * 0.5 + 1).reshape(shape)
    x = da.from_array(a, chunks=(((lead,),) if lead else ()) + (tuple(sizes),))
    off = rng.randint(1, 4)
    wn = np.arange(L + 2 * off, dtype="f8") * 2
    un = np.arange(L + 2 * off, dtype="f8") + 100
    w = da.from_array(wn, chunks=((off + sizes[0],) + tuple(sizes[1:-1]) + (sizes[-1] + off,),))
    u = da.from_array(un, chunks=((1, L + 2 * off - 1),))
    v = (u + w)[off : off + L] * 2
    vnp = (un + wn)[off : off + L] * 2
    case = {"producer": "single_block_second", "opts": {"k": k, "lead": lead, "off": off}, "shape": list(shape), "chunks": [list(map(float, c)) for c in x.chunks]}
    ctx.current_case = case
    problems = []
    adv = v.chunks
    try:
        settled = v.optimize().chunks
    except Exception:
        settled = adv
    if len(adv[0]) != 1 or len(settled[0]) == 1:
        ctx.count("single_block_second_not_drifting")
        return case, problems
    case["settled_differs"] = True
    ctx.count("settled_layout_differed_from_advertised")
    try:
        y = da.map_blocks(_single_block_second, x, v, dtype="f8")
    except Exception as ex:
        ctx.tab("refused_at_build", f"single_block_second:{type(ex).__name__}:{exc_site(ex)}")
        return case, problems
    with rec.phase("execute"):
        try:
            got = y.compute()
        except Exception as ex:
            problems.append(("compute_raises", f"map_blocks(f, x, v) with v advertising one block raised {short_tb(ex, 8)}", f"single_block_second:raise:{type(ex).__name__}:{exc_site(ex)}:{msg_key(ex)}"))
            return case, problems
    calls = [c for c in _SBLOG if c["phase"] == "execute"]
    ctx.count("invocations_logged", len(calls))
    ctx.count("single_block_second_invocations", len(calls))
    for c in calls:
        if c["told_shape"] != [L] or c["told_nchunks"] != [1] or c["told_loc"] != [[0, L]]:
            problems.append(("input_info_mismatch", f"block_info[1] = shape {c['told_shape']} location {c['told_loc']} num-chunks {c['told_nchunks']}; v was advertised as one block [(0, {L})]", "single_block_second:input_info_mismatch"))
            break
        if c["v_shape"] != [L]:
            problems.append(("block_shape_mismatch", f"block_info[1] describes v as one block of shape ({L},) but the function was given a block of shape {tuple(c['v_shape'])}", "single_block_second:block_shape_mismatch"))
            break
    why = same(a + vnp, got, 1, float(np.abs(a + vnp).max()), check_dtype=False)
    ctx.count("values_compared")
    if why and not problems:
        problems.append(("values", f"single_block_second: result differs from NumPy: {why}", f"single_block_second:values:{why.split()[0]}"))
    return case, problems


def run_one(rng, ctx):
    del _IDLOG[:]
    r_ = rng.random()
    if r_ < 0.08:
        case, problems = judge_single_block_second(rng, ctx)
    elif r_ < 0.45:
        case, problems = judge_axes(rng, ctx)
    else:
        case, problems = judge(rng, ctx)
    ctx.count("calls_checked")
    nb = int(np.prod([len(c) for c in case["chunks"]])) if case["chunks"] else 1
    ctx.seen((case["producer"], tuple(sorted(case["opts"].items())), tuple(map(tuple, case["chunks"]))), nb >= 2 or case.get("settled_differs", False))
    ctx.tab("producers", case["producer"])
    if len(ctx.samples) < 3 and nb >= 2:
        ctx.sample(case)
    seen = set()
    for kind, msg, mech in problems:
        if mech in seen:
            continue
        seen.add(mech)
        ctx.violation(kind, f"{msg}\n  case: {case}", case=case, mech=f"{mech}:{case['producer']}")


def replay_case(case, ctx):
    ctx.inconc("C20 cases are regenerated from the seed; rerun the tier with the same VERIF_SEED")


def finalize(ctx):
    if ctx.counters.get("invocations_logged", 0) == 0:
        ctx.inconc("no invocation was logged")
    if ctx.counters.get("settled_layout_differed_from_advertised", 0) == 0:
        ctx.inconc("no case where the optimized layout differed from the advertised one (the deciding cases)")


RULE += (
    ' Also calls with drop_axis / new_axis / explicit chunks= and 0-2 extra lower-rank inputs against a model of block_info[i]; producers that drift with equal block count and widest block, windows of fancy-indexed arrays, and drift through a plain map_blocks.'
)
