"""C28 - unknown chunk sizes are resolved exactly or refused (per-block size monitor + NumPy oracle)."""

from __future__ import annotations

import math
import random

import dask
import numpy as np
from dask.core import flatten

from vf import sched
from vf.common import exc_site, msg_key, short_tb
from vf.gen import Prog, ReplayRefused, Var, leaf_values, rand_chunks, vsame
from vf.oracles import same
from vf.util import graph_of

PROPERTY = "C28"
WORKERS = {"quick": 16, "thorough": 16}
CASES = {"quick": 1500, "thorough": 10000}
TIME = {"quick": 45, "thorough": 240}
CASE_TIMEOUT = 120
TECHNIQUE = (
    "runtime monitoring: data-dependent producers (x[mask] with NumPy / dask masks, n-d and 1-d; nonzero, argwhere, flatnonzero, unique, "
    "compress, extract, x[x > c]) are followed by generated operations; after compute_chunk_sizes() every block is fetched by the "
    "instrumented scheduler and its true size compared with the recorded chunk size; every follow-on result that is *returned* is compared "
    "with NumPy (a raise is a refusal and is only counted), with and without compute_chunk_sizes() in between, including derivations made "
    "before the sizes were computed"
)
RULE = (
    "producers over shapes ndim 1-3 (extents 1-12, thorough 1-24, all chunkings, masks that empty whole blocks); follow-on: 1-2 random G "
    "operations (arithmetic with known arrays, slicing incl. stepped and negative-step slices, reductions, rechunk, concatenate, reshape, "
    "transpose, map_blocks, cumulative scans, arg-reductions) applied (a) while sizes are unknown, (b) after compute_chunk_sizes(), (c) to a "
    "derivation taken before the sizes were computed. distinct = (producer, follow-on op, phase); non-trivial = multi-block producer with a "
    "non-empty selection"
)
ASSUMPTIONS = ["NumPy as ground truth", "any exception raised by an operation on an array with unknown sizes counts as a refusal (the property allows it)"]
WEIGHTS = {"#index": 2.5, "#reduction": 1.5, "#rechunk": 1.5, "#move": 1.2, "#combine": 1.2, "#scan": 1.2, "#linalg": 0.3, "#window": 0.5}

PRODUCERS = ["np_mask_1d", "da_mask_1d", "da_mask_nd", "np_mask_axis", "da_mask_axis", "nonzero", "argwhere", "flatnonzero", "unique", "compress", "extract", "gt"]


def gen_case(rng, big):
    nd = rng.choice([1, 1, 2, 2, 3])
    mx = 24 if big else 12
    shape = [rng.randint(1, mx if nd == 1 else max(3, mx // nd + 2)) for _ in range(nd)]
    return {
        "shape": shape, "dtype": rng.choice(["f8", "i8", "i4", "f4"]), "seed": rng.randrange(10**6), "vals": rng.choice(["perm", "ties"]),
        "chunks": [list(c) for c in rand_chunks(rng, shape)], "producer": rng.choice(PRODUCERS), "thr": rng.randint(-4, 6),
        "base": rng.choice(["leaf", "leaf", "leaf", "sliding", "sliding_max"]), "axis": rng.randrange(nd), "mask_chunks": [list(c) for c in rand_chunks(rng, shape)], "fseed": rng.randrange(10**9), "nfollow": rng.randint(1, 2),
    }


def produce(p, da):
    a = leaf_values(tuple(p["shape"]), p["dtype"], p["vals"], p["seed"])
    x = da.from_array(a, chunks=tuple(tuple(c) for c in p["chunks"]))
    k, thr, ax = p["producer"], p["thr"], p["axis"]
    if p.get("base", "leaf") != "leaf" and a.shape[ax] >= 2:
        # the producer's input is itself a node whose optimized block grid may differ from the advertised one
        w = min(3, a.shape[ax])
        fn = "sum" if p["base"] == "sliding" else "max"
        x = getattr(da.sliding_window_view(x, w, axis=ax), fn)(axis=-1)
        a = getattr(np.lib.stride_tricks.sliding_window_view(a, w, axis=ax), fn)(axis=-1)
        p = dict(p, mask_chunks=[list(c) for c in x.chunks], shape=list(a.shape))
    m = a > thr
    if k == "np_mask_1d":
        if a.ndim != 1:
            a, x = a.ravel(), x.ravel()
            m = a > thr
        return x[m], a[m]
    if k == "da_mask_1d":
        if a.ndim != 1:
            a, x = a.ravel(), x.ravel()
        return x[x > thr], a[a > thr]
    if k in ("da_mask_nd", "gt"):
        md = da.from_array(m, chunks=tuple(tuple(c) for c in p["mask_chunks"])) if k == "da_mask_nd" else (x > thr)
        return x[md], a[m]
    if k in ("np_mask_axis", "da_mask_axis"):
        m1 = (np.arange(a.shape[ax]) * 7 + thr) % 3 != 0
        idx = (slice(None),) * ax + (m1 if k == "np_mask_axis" else da.from_array(m1, chunks=max(1, len(m1) // 2)),)
        nidx = (slice(None),) * ax + (m1,)
        return x[idx], a[nidx]
    if k == "nonzero":
        r, e = da.nonzero(x > thr), np.nonzero(m)
        i = p["axis"] % len(e)
        return r[i], e[i]
    if k == "argwhere":
        return da.argwhere(x > thr), np.argwhere(m)
    if k == "flatnonzero":
        return da.flatnonzero(x > thr), np.flatnonzero(m)
    if k == "unique":
        return da.unique(x), np.unique(a)
    if k == "compress":
        m1 = (np.arange(a.shape[ax]) * 5 + thr) % 3 != 1
        return da.compress(m1, x, axis=ax), np.compress(m1, a, axis=ax)
    if k == "extract":
        return da.extract(x > thr, x), np.extract(m, a)
    raise ValueError(k)


def true_block_sizes(y):
    """Fetch every block of y through the instrumented scheduler; returns {block index: shape}."""
    yy, dsk, keys = graph_of(y, True)
    run = sched.execute(dsk, order="random", rng=random.Random(0), check_mutation=False)
    return {k[1:]: tuple(np.shape(run.values[k])) for k in flatten(keys)}


def has_nan(chunks):
    return any(isinstance(c, float) and c != c for d in chunks for c in d)


def plain_also_fails(g, var, f, true_chunks):
    """Replay the follow-on steps over a plain from_array leaf holding the same values on the same (true) block grid.
    If that fails the same way, the defect belongs to the operation (zero-width blocks, ...), not to unknown sizes."""
    from vf.gen import literal_step

    try:
        steps = [literal_step(var.np, true_chunks)] + [dict(s) for s in g.steps[1 : f.id + 1]]
        g2 = Prog.replay(steps)
        w = g2.vars[f.id]
        return vsame(w, w.da.compute()) is not None
    except Exception:
        return True


CUR = {"base": "leaf"}


def directed_unknown(y, ev, ctx, problems, label, da):
    """Operations that meet the unknown axis with something of KNOWN size, or re-block it: each must either refuse
    (raise) or compute what NumPy computes - never a silently different array."""
    if ev.ndim < 1 or ev.size == 0 or ev.dtype.kind == "b":
        return
    K = ev.shape[0]
    cases = []
    if ev.ndim == 1:
        w = np.arange(K, dtype=ev.dtype) * 3
        cases.append(("add_known_single_chunk_operand", lambda: y + da.from_array(w, chunks=(K,)), lambda: ev + w))
        cases.append(("add_numpy_operand", lambda: y + w, lambda: ev + w))
    cases.append(("apply_along_axis_sum", lambda: da.apply_along_axis(np.sum, 0, y), lambda: np.apply_along_axis(np.sum, 0, ev)))
    cases.append(("rechunk_unknown_axis_to_one_nan_block", lambda: y.rechunk({0: (np.nan,)}), lambda: ev))
    cases.append(("sum_axis0", lambda: y.sum(axis=0), lambda: ev.sum(axis=0)))
    for name, fd, fn in cases:
        try:
            got = np.asarray(fd().compute())
        except Exception as e:
            ctx.tab("directed_unknown", f"{name}|refused:{type(e).__name__}")
            continue
        want = np.asarray(fn())
        ctx.count("directed_unknown_results_compared")
        if got.shape != want.shape or not np.allclose(got.astype("f8"), want.astype("f8"), equal_nan=True):
            ctx.tab("directed_unknown", f"{name}|WRONG")
            problems.append(("unknown_size_result_wrong", f"{label}: {name} over an array of unknown chunk sizes returned shape {got.shape} (NumPy: {want.shape}) / other values instead of refusing", f"unknown:directed:{name}"))
        else:
            ctx.tab("directed_unknown", f"{name}|agrees")


def follow(g, var, nfollow, ctx, problems, phase, label, true_chunks=None):
    """Apply generated ops to `var` (an adopted unknown/resolved array); compare whatever is returned with NumPy."""
    cur = var
    for _ in range(nfollow):
        n0 = len(g.steps)
        try:
            f = g.step_on(cur, tries=8)
        except Exception as e:
            ctx.tab("refused_at_build", f"{phase}:{type(e).__name__}")
            return
        if f is None:
            for (op, exc), n in g.refused.items():
                ctx.tab("refusals", f"{phase}|{op}:{exc}", n)
            g.refused.clear()
            return
        op = g.steps[f.id]["op"]
        ctx.tab("follow_on", f"{phase}|{op}")
        try:
            got = f.da.compute()
        except Exception as e:
            # raising instead of returning a wrong result is what the property allows while sizes are unknown
            ctx.tab("refused_at_compute", f"{phase}|{op}:{type(e).__name__}")
            if phase == "resolved" and true_chunks is not None and plain_also_fails(g, var, f, true_chunks):
                ctx.count("defect_of_the_op_on_this_block_grid_left_to_C01")
                return
            if phase == "resolved":
                mech_ = f"resolved:raise:{op}:{type(e).__name__}:{exc_site(e)}:{msg_key(e)}"
                if "Dimension_has_blocks" in mech_ and CUR["base"] != "leaf":
                    # the recorded C01/C08 finding (a consumer that recorded its input's block count over a native
                    # sliding-window kernel), reached here because the producer's input is such a kernel
                    mech_ = "resolved:raise:baked_block_count_over_window_base:Dimension_has_blocks"
                problems.append(("follow_on_raises_after_resolution", f"{label} [{phase}] {op}: {short_tb(e)}\n  steps: {g.steps[n0:]}", mech_))
            return
        ctx.count("follow_on_results_compared")
        ctx.seen((label, op, phase), True)
        why = vsame(f, got)
        if why and true_chunks is not None and plain_also_fails(g, var, f, true_chunks):
            ctx.count("defect_of_the_op_on_this_block_grid_left_to_C01")
            return
        if why:
            mech = f"{phase}:wrong:{op}:{why.split()[0]}"
            step = g.steps[f.id]
            if phase == "unknown" and len(step["in"]) >= 2:
                # recorded finding (inherited from dask.array): blocks of an unknown-size array are paired positionally with the
                # other operand's blocks; when the true sizes differ the blocks broadcast or concatenate into a wrong result
                mech = "unknown:blocks_paired_positionally_with_another_array"
            elif phase == "unknown" and op == "squeeze" and step["p"].get("axis") is None:
                mech = "unknown:squeeze_all_cannot_see_length_one_axes"
            problems.append(("follow_on_wrong", f"{label} [{phase}] {op} returned a wrong result: {why}\n  steps: {g.steps[n0:]}", mech))
            return
        try:
            if tuple(np.shape(got)) != tuple(f.np.shape):
                problems.append(("follow_on_shape", f"{label} [{phase}] {op}: shape {np.shape(got)} != {f.np.shape}", f"{phase}:shape:{op}"))
        except Exception:
            pass
        if "masked" in f.flags:
            return
        cur = f


def check_case(p, ctx):
    import dask_array as da

    problems = []
    label = p["producer"]
    CUR["base"] = p.get("base", "leaf")
    try:
        y, ev = produce(p, da)
    except NotImplementedError:
        ctx.tab("producer_refused", label)
        return problems, False
    except Exception as e:
        ctx.tab("producer_refused", f"{label}:{type(e).__name__}")
        return problems, False
    ev = np.asarray(ev)
    unknown = has_nan(y.chunks)
    ctx.tab("producers", f"{label}|{'unknown' if unknown else 'known'}")
    # the producer itself
    try:
        got = y.compute()
    except Exception as e:
        problems.append(("producer_raises", f"{label}: {short_tb(e)}", f"producer:raise:{label}:{type(e).__name__}:{exc_site(e)}"))
        return problems, False
    why = same(ev, got, 0, 1.0)
    if why:
        problems.append(("producer_wrong", f"{label}: {why}", f"producer:wrong:{label}:{why.split()[0]}"))
        return problems, False
    ctx.count("producers_checked")
    rng = random.Random(p["fseed"])
    multi = int(np.prod(y.numblocks)) >= 2

    def new_prog(coll):
        g = Prog(random.Random(rng.randrange(10**9)), max_extent=7, max_size=3000, weights=WEIGHTS, dtypes=["f8", "i8"])
        v = Var(0, ev, coll, inx=0, mag=float(np.abs(ev.astype("f8")).max()) if ev.size else 1.0)
        g.vars.append(v)
        g.steps.append({"op": "from_array", "in": [], "p": {"adopted": "unknown_chunks"}})
        return g, v

    # the true block grid (measured, not taken from the library's bookkeeping)
    true_chunks = None
    try:
        sizes0 = true_block_sizes(y)
        nb = y.numblocks
        true_chunks = tuple(tuple(int(sizes0[tuple(i if d == ax else 0 for d in range(len(nb)))][ax]) for i in range(nb[ax])) for ax in range(len(nb)))
        if tuple(sum(c) for c in true_chunks) != tuple(ev.shape):
            true_chunks = None
    except Exception:
        true_chunks = None
    # (a) follow-on while sizes are unknown
    if unknown:
        g, v = new_prog(y)
        follow(g, v, p["nfollow"], ctx, problems, "unknown", label, true_chunks)
        directed_unknown(y, ev, ctx, problems, label, da)
    # a derivation taken before sizes are computed
    try:
        early = y + 1 if ev.dtype.kind != "b" else y
        early_np = ev + 1 if ev.dtype.kind != "b" else ev
    except Exception:
        early = None
    # (b) compute_chunk_sizes: recorded sizes == true block sizes
    if unknown:
        try:
            y.compute_chunk_sizes()
        except Exception as e:
            problems.append(("compute_chunk_sizes_raises", f"{label}: {short_tb(e)}", f"compute_chunk_sizes:raise:{type(e).__name__}:{exc_site(e)}"))
            return problems, multi and ev.size > 0
        ctx.count("compute_chunk_sizes_calls")
        if has_nan(y.chunks):
            problems.append(("sizes_still_unknown", f"{label}: chunks after compute_chunk_sizes: {y.chunks}", "compute_chunk_sizes:still_unknown"))
            return problems, True
        try:
            sizes = true_block_sizes(y)
        except Exception as e:
            problems.append(("blocks_unfetchable", f"{label}: {short_tb(e)}", f"compute_chunk_sizes:fetch:{type(e).__name__}:{exc_site(e)}"))
            return problems, True
        for idx, shp in sizes.items():
            ctx.count("blocks_measured")
            want = tuple(int(y.chunks[d][i]) for d, i in enumerate(idx))
            if tuple(shp) != want:
                problems.append(("recorded_size_wrong", f"{label}: block {idx} has shape {shp}, compute_chunk_sizes recorded {want} (chunks {y.chunks})", f"compute_chunk_sizes:wrong_size:{label}"))
                break
        if tuple(sum(c) for c in y.chunks) != tuple(ev.shape):
            problems.append(("resolved_shape_wrong", f"{label}: resolved shape {tuple(sum(c) for c in y.chunks)} != NumPy's {ev.shape}", f"compute_chunk_sizes:shape:{label}"))
        if problems:
            return problems, True
    # follow-on after resolution
    g, v = new_prog(y)
    follow(g, v, p["nfollow"], ctx, problems, "resolved", label, true_chunks)
    # (c) the early derivation still computes NumPy's value, and ops on it too
    if early is not None and unknown:
        try:
            got = early.compute()
            ctx.count("early_derivations_checked")
            why = same(early_np, got, 0, 1.0)
            if why:
                problems.append(("early_derivation_wrong", f"{label}: y + 1 taken before compute_chunk_sizes: {why}", f"early:wrong:{label}"))
        except Exception as e:
            ctx.tab("refused_at_compute", f"early|{type(e).__name__}")
    return problems, multi and ev.size > 0


def run_one(rng, ctx):
    p = gen_case(rng, ctx.tier == "thorough")
    ctx.current_case = p
    problems, nontrivial = check_case(p, ctx)
    ctx.count("cases_checked")
    ctx.seen((p["producer"], "producer"), nontrivial)
    if len(ctx.samples) < 2 and nontrivial:
        ctx.sample(p)
    seen = set()
    for kind, msg, mech in problems:
        if mech in seen:
            continue
        seen.add(mech)
        ctx.violation(kind, f"{msg}\n  case: {p}", case=p, mech=mech)


def replay_case(case, ctx):
    problems, _ = check_case(case, ctx)
    seen = set()
    for kind, msg, mech in problems:
        if mech not in seen:
            seen.add(mech)
            ctx.violation(kind, msg, case=case, mech=mech)


def finalize(ctx):
    if ctx.counters.get("blocks_measured", 0) == 0:
        ctx.inconc("compute_chunk_sizes was never followed by a per-block measurement")
    if ctx.counters.get("follow_on_results_compared", 0) == 0:
        ctx.inconc("no follow-on result was compared")


RULE += (
    ' Producers also run over sliding-window reductions (advertised grid differs from the optimized one); directed operations that meet the unknown axis with a known-size operand or re-block it must refuse or agree with NumPy.'
)
