"""C01 - array programs compute what NumPy computes (end-to-end differential monitor)."""

from __future__ import annotations

import numpy as np

from vf.common import exc_site, msg_key, short_tb
from vf.gen import OPS, Prog, ReplayRefused
from vf.oracles import same
from vf.util import baked_grid_key

PROPERTY = "C01"
WORKERS = {"quick": 16, "thorough": 16}
CASES = {"quick": 2500, "thorough": 15000}
TIME = {"quick": 50, "thorough": 240}
CASE_TIMEOUT = 60
RULE = (
    "seeded random DAG programs (1-8 steps quick / 1-14 thorough, shared subtrees) over the op table in vf/gen.py; "
    "each program's output and one random intermediate are computed through x.compute() and compared with the NumPy "
    "mirror (shape, dtype, values; bit-exact unless an order-dependent inexact op was applied). distinct = distinct "
    "(op,fn) sequences of the checked sub-program; non-trivial = >=2 non-leaf ops, some input with >=2 blocks, non-empty output"
)
ASSUMPTIONS = [
    "NumPy is the ground truth",
    "leaf values are dyadic rationals so exact float ops are order-independent; inexact ops compared with 4096*eps*2^depth relative to magnitude",
    "scipy-backed linalg, p2p rechunk, zarr/h5py IO not installed: not exercised",
]


def params(ctx):
    if ctx.tier == "thorough":
        return dict(max_extent=ctx.state["rng_extent"], max_size=20000)
    return dict(max_extent=7, max_size=4000)


def nblocks_max(g):
    m = 1
    for v in g.vars:
        if v.da is not None:
            try:
                m = max(m, int(np.prod(v.da.numblocks)))
            except Exception:
                pass
    return m


def check_var(g, v, ctx, tag="output"):
    """Compute v through the default path and compare with its mirror. Returns reason or None."""
    z = "|zero_size" if has_zero_size(g, v) else ""
    try:
        got = v.da.compute()
    except Exception as e:
        return ("compute_raises", short_tb(e), (f"raise:{type(e).__name__}:{exc_site(e)}:{msg_key(e)}" if z else baked_grid_key(f"raise:{type(e).__name__}:{exc_site(e)}:{msg_key(e)}", g.closure(v.id))) + z)
    r = same(v.np, got, v.inx, v.mag, eps=v.eps)
    if r is not None:
        step = g.steps[v.id]
        fn = step["p"].get("fn") if isinstance(step["p"], dict) else None
        mech = f"mismatch:{step['op']}:{fn}:{r.split()[0]}{z}"
        if r.startswith("dtype") and step["op"] in ("tensordot", "matmul", "einsum") and v.np.dtype.kind in "iu" and v.np.dtype.itemsize < 8 and np.asarray(got).dtype.itemsize == 8:
            mech = "mismatch:int_contraction:dtype_promoted_to_64bit"
        if step["op"] == "getitem" and (r.startswith("shape") or r.startswith("values")):
            from vf.checks.c12 import nonadjacent_int_list
            from vf.gen import dec_index

            # known finding only if the result is NumPy's with the advanced dimension kept in place
            # (equal extents make this a values mismatch instead of a shape mismatch)
            if nonadjacent_int_list(dec_index(step["p"]["idx"])) and any(
                same(np.moveaxis(v.np, 0, k), got, v.inx, v.mag, eps=v.eps) is None for k in range(1, v.np.ndim)
            ):
                mech = "mismatch:getitem:int_and_list_nonadjacent"
        return ("mismatch", r, mech)
    return None


def has_zero_size(g, v):
    seen = set()
    stack = [v.id]
    while stack:
        i = stack.pop()
        if i in seen:
            continue
        seen.add(i)
        if g.vars[i].np.size == 0:
            return True
        stack.extend(g.steps[i]["in"])
    return False


def first_failing(g, ctx):
    for v in g.vars:
        if v.da is None:
            continue
        r = check_var(g, v, ctx)
        if r is not None:
            return v, r
    return None, None


def run_one(rng, ctx):
    if ctx.tier == "thorough":
        ctx.state["rng_extent"] = rng.choice([5, 7, 9, 12, 20, 40])
        nsteps = rng.randint(1, 14)
    else:
        nsteps = rng.randint(1, 8)
    g = Prog(rng, **params(ctx))
    g.grow(nsteps)
    for (op, exc), n in g.refused.items():
        ctx.tab("refused", f"{op}:{exc}", n)
    for op, n in g.attempted.items():
        ctx.tab("attempted", op, n)
    if not g.vars:
        return
    outs = g.outputs(1)
    non_leaf = [v for v, s in zip(g.vars, g.steps) if s["in"]]
    if len(non_leaf) > 1 and rng.random() < 0.5:
        outs = outs + [rng.choice(non_leaf[:-1])]
    for v in outs:
        ctx.current_case = {"steps": g.closure(v.id)}
        r = check_var(g, v, ctx)
        ctx.count("programs_checked")
        sig = g.signature(v.id)
        nops = sum(1 for s in ctx.current_case["steps"] if s["in"])
        nontrivial = nops >= 2 and nblocks_max(g) >= 2 and v.np.size > 0
        ctx.seen(sig, nontrivial)
        for s in ctx.current_case["steps"]:
            fn = s["p"].get("fn") if isinstance(s["p"], dict) else None
            ctx.tab("ops", s["op"] if fn is None else f"{s['op']}:{fn}")
        ctx.tab("cells", f"ndim={v.ndim},dtype={v.dtype},inexact={min(v.inx, 3)}")
        if len(ctx.samples) < 2 and nontrivial:
            ctx.sample({"steps": ctx.current_case["steps"], "result_shape": list(v.shape), "dtype": str(v.dtype)})
        if r is not None:
            fv, fr = first_failing(g, ctx)
            if fv is None:
                fv, fr = v, r
            kind, msg, mech = fr
            case = {"steps": g.closure(fv.id)}
            ctx.violation(kind, f"{msg}\n  program: {case['steps']}", case=case, mech=mech)


def replay_case(case, ctx):
    try:
        g = Prog.replay(case["steps"])
    except ReplayRefused as e:
        ctx.violation("build_raises_on_replay", str(e), case=case, mech="replay_refused")
        return
    v = g.vars[-1]
    r = check_var(g, v, ctx)
    if r is not None:
        ctx.violation(r[0], r[1], case=case, mech=r[2])


def finalize(ctx):
    if ctx.counters.get("programs_checked", 0) == 0:
        ctx.inconc("no program was checked")


def finalize_merged(m, tier):
    att = m["tables"].get("attempted", {})
    ref = {}
    for k, n in m["tables"].get("refused", {}).items():
        op = k.split(":")[0]
        ref[op] = ref.get(op, 0) + n
    never = [n for n, o in OPS.items() if o.w > 0 and att.get(n, 0) == 0]
    m["notes"]["ops_never_attempted"] = never
    for op, n in att.items():
        if n >= 20 and ref.get(op, 0) == n:
            m["inconclusive"].append(f"op {op} was refused at build time in all {n} attempts")
