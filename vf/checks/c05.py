"""C05 - every compute / persist / optimize entry point agrees (differential monitor across entry points)."""

from __future__ import annotations

import math

import dask
import numpy as np

from vf.common import exc_site, msg_key, short_tb
from vf.gen import Prog, ReplayRefused, vsame
from vf.util import closure_has_zero, fresh, max_blocks, root_class, tally_ops, tally_prog

PROPERTY = "C05"
WORKERS = {"quick": 16, "thorough": 16}
CASES = {"quick": 220, "thorough": 2100}
TIME = {"quick": 40, "thorough": 240}
CASE_TIMEOUT = 120
TECHNIQUE = (
    "runtime monitoring: differential oracle across the seven public entry points (x.compute, dask.compute with other collections, "
    "x.persist, dask.persist, dask.optimize, x.optimize, x.to_delayed) on generated programs, NumPy mirror as referee, name/chunks/dtype "
    "snapshots around each entry point, and a generated follow-on operation applied to every returned collection"
)
RULE = (
    "programs from G (1-7 steps, shared subtrees), stratified by root expression class. For the output x: every entry point is run on a "
    "fresh collection and again on one long-lived collection (caches warm, random order); values are compared with the NumPy mirror; "
    "persisted / dask-optimized collections must keep x.name, x.chunks, x.dtype; then one random G operation is applied to each returned "
    "collection and compared with the same operation on the mirror. dask.compute/dask.persist/dask.optimize are called together with a "
    "second array of the program and a dask.delayed. distinct = (root class, entry point, follow-on op); non-trivial = x has >=2 blocks, "
    ">=2 ops and is non-empty"
)
ASSUMPTIONS = ["NumPy mirror as ground truth", "x.optimize() may rename (only persisted and dask-optimized collections must keep the name)"]
WEIGHTS = {"#window": 2.0, "#reduction": 1.5, "#rechunk": 1.5, "#index": 1.2, "#linalg": 0.5}

ENTRIES = ["compute", "dask.compute", "persist", "dask.persist", "dask.optimize", "optimize", "to_delayed"]


def _delayed_seven():
    return 7


def chunks_equal(a, b):
    if len(a) != len(b):
        return False
    for da_, db in zip(a, b):
        if len(da_) != len(db):
            return False
        for x, y in zip(da_, db):
            xn = isinstance(x, float) and math.isnan(x)
            yn = isinstance(y, float) and math.isnan(y)
            if xn or yn:
                if xn != yn:
                    return False
            elif x != y:
                return False
    return True


def assemble_delayed(d, chunks):
    """np.block over the computed grid of Delayed objects."""
    flat = list(d.ravel()) if isinstance(d, np.ndarray) else [d]
    vals = dask.compute(*flat, scheduler="sync")
    if not isinstance(d, np.ndarray) or d.ndim == 0:
        return vals[0]
    it = iter(vals)
    conc = np.ma.concatenate if any(isinstance(v, np.ma.MaskedArray) for v in vals) else np.concatenate

    def rec(shape, axis):
        if not shape:
            return next(it)
        parts = [rec(shape[1:], axis + 1) for _ in range(shape[0])]
        return conc(parts, axis=axis)

    return rec(tuple(d.shape), 0)


def run_entry(entry, x, other, ctx):
    """Returns (value, returned collection or None)."""
    dl = dask.delayed(_delayed_seven)()
    if entry == "compute":
        return x.compute(), None
    if entry == "dask.compute":
        if other is not None:
            a, b, c = dask.compute(x, other, dl)
        else:
            a, c = dask.compute(x, dl)
        if c != 7:
            raise AssertionError("delayed passenger computed to %r" % (c,))
        return a, None
    if entry == "persist":
        p = x.persist()
        return p.compute(), p
    if entry == "dask.persist":
        if other is not None:
            p, _o, _d = dask.persist(x, other, dl)
        else:
            p, _d = dask.persist(x, dl)
        return p.compute(), p
    if entry == "dask.optimize":
        if other is not None:
            o, _o, _d = dask.optimize(x, other, dl)
        else:
            o, _d = dask.optimize(x, dl)
        return o.compute(), o
    if entry == "optimize":
        o = x.optimize()
        return o.compute(), o
    if entry == "to_delayed":
        d = x.to_delayed()
        return assemble_delayed(d, x.chunks), None
    raise ValueError(entry)


def raw_tree_needs_lowering(x):
    """True when x's raw expression tree is not already in lowered form (lowering would change it)."""
    try:
        from vf import rewrites as R

        with R.REC.suspend():
            return x.expr.lower_completely()._name != x.expr._name
    except Exception:
        return True


def raw_walk_unsafe(x):
    """True when some node that emits its own layer would itself be rewritten by lowering: dask.optimize emits that
    node's raw layer as it is.  (A node without a layer of its own goes through ArrayExpr._layer, which materializes it
    behind its raw name - that fallback is sound, so a raw tree whose only un-lowered nodes are of that kind must work.)"""
    try:
        from dask_array._expr import ArrayExpr

        from vf import rewrites as R

        with R.REC.suspend():
            for n in x.expr.walk():
                if not isinstance(n, ArrayExpr):
                    continue
                if type(n)._layer is ArrayExpr._layer:
                    continue
                try:
                    if n._lower() is not None:
                        return True
                except Exception:
                    return True
        return False
    except Exception:
        return True


def optimized_layout_differs(x):
    try:
        from vf import rewrites as R

        with R.REC.suspend():
            return not chunks_equal(x.expr.optimize().chunks, x.chunks)
    except Exception:
        return False


def known_mechanism(entry, x, exc, other=None):
    """Mechanism keys of the two recorded findings; None for anything else."""
    if entry == "dask.optimize" and (raw_walk_unsafe(x) or (other is not None and raw_walk_unsafe(other))):
        # dask.optimize materializes the *raw* tree node by node (dask's _ExprSequence.__dask_graph__ calls
        # _layer() on every unlowered node): layers of nodes that lowering would have rewritten are emitted as is
        return "dask.optimize:raw_tree_walked_without_lowering"
    if entry == "dask.persist" and exc is not None and ("_find_layer_key" in short_tb(exc, 12) or "from_graph found a block of shape" in str(exc)) and (optimized_layout_differs(x) or (other is not None and optimized_layout_differs(other))):
        # documented: dask.persist optimizes outside the pinned path; a rewrite that changes the root's block grid cannot be rebuilt
        return "dask.persist:optimized_root_layout_differs_from_advertised"
    return None


def check_entry(entry, g, v, x, other, ctx, problems, z, follow=None, rng=None):
    rc = root_class(x)
    name0, chunks0, dtype0 = x.name, x.chunks, x.dtype
    try:
        val, ret = run_entry(entry, x, other, ctx)
    except Exception as e:
        ctx.tab("matrix", f"{rc}|{entry}|raised")
        mech = known_mechanism(entry, x, e, other) or f"{entry}:raise:{type(e).__name__}:{exc_site(e)}:{msg_key(e)}{z}"
        problems.append((f"{entry}_raises", f"{entry} raised {short_tb(e)}", mech))
        return None
    if x.name != name0:
        problems.append(("name_changed", f"x.name changed across {entry}: {name0} -> {x.name}", f"{entry}:x_name_changed{z}"))
    why = vsame(v, val)
    if why:
        ctx.tab("matrix", f"{rc}|{entry}|mismatch")
        mech = known_mechanism(entry, x, None, other) or f"{entry}:mismatch:{why.split()[0]}{z}"
        problems.append((f"{entry}_mismatch", f"{entry} result differs from NumPy: {why}", mech))
        return None
    ctx.tab("matrix", f"{rc}|{entry}|agreed")
    ctx.count("entry_points_agreed")
    if ret is not None and entry in ("persist", "dask.persist", "dask.optimize"):
        ctx.count("meta_checks")
        if ret.name != name0:
            problems.append(("returned_name", f"{entry} returned name {ret.name}, x.name {name0}", f"{entry}:returned_name_differs{z}"))
        if not chunks_equal(ret.chunks, chunks0):
            problems.append(("returned_chunks", f"{entry} returned chunks {ret.chunks}, x.chunks {chunks0}", f"{entry}:returned_chunks_differ{z}"))
        if ret.dtype != dtype0:
            problems.append(("returned_dtype", f"{entry} returned dtype {ret.dtype}, x.dtype {dtype0}", f"{entry}:returned_dtype_differs{z}"))
    return ret


def follow_on(g, v, ret, entry, ctx, problems, z, follow=None):
    """Apply one generated op to the returned collection; compare with the mirror. Returns the follow steps."""
    a = g.adopt(v, ret, tag=entry)
    if follow is None:
        f = g.step_on(a)
        if f is None:
            ctx.count("follow_on_not_generated")
            return None
        steps = g.closure(f.id)
    else:
        m = {}
        f = None
        for i, s in enumerate(follow):
            if isinstance(s["p"], dict) and "adopted" in s["p"]:
                m[i] = a.id
                continue
            f = g.apply(s["op"], [m[j] for j in s["in"]], s["p"])
            if f is None:
                ctx.count("follow_on_refused_on_replay")
                return None
            m[i] = f.id
        steps = follow
        if f is None:
            return None
    ctx.count("follow_on_ops")
    op = g.steps[f.id]["op"]
    ctx.tab("follow_on", f"{entry}|{op}")

    def direct_also_fails():
        """The same op applied to x itself: if that fails too it is the op's defect (C01), not the entry point's."""
        try:
            step = g.steps[f.id]
            ins = [v.id if i == a.id else i for i in step["in"]]
            d = g.apply(step["op"], ins, step["p"], record_refusal=False)
            if d is None:
                return True
            return vsame(d, d.da.compute()) is not None
        except Exception:
            return True

    try:
        got = f.da.compute()
    except Exception as e:
        if direct_also_fails():
            ctx.count("follow_on_defect_of_the_op_left_to_C01")
            return steps
        problems.append(("follow_on_raises", f"{op} applied to the result of {entry} raised {short_tb(e)}\n  follow: {steps}", f"{entry}:follow_raise:{type(e).__name__}:{exc_site(e)}:{msg_key(e)}{z}"))
        return steps
    why = vsame(f, got)
    if why:
        if direct_also_fails():
            ctx.count("follow_on_defect_of_the_op_left_to_C01")
            return steps
        problems.append(("follow_on_mismatch", f"{op} applied to the result of {entry} differs from NumPy: {why}\n  follow: {steps}", f"{entry}:follow_mismatch:{op}:{why.split()[0]}{z}"))
    return steps


def check_program(g, v, ctx, rng, case=None, other_var=None):
    problems = []
    z = "|zero_size" if closure_has_zero(g, v) else ""
    other = other_var.da if other_var is not None else None
    # baseline: the default path must itself agree with NumPy, otherwise the program is C01's business
    try:
        base = fresh(v.da).compute()
    except Exception as e:
        ctx.tab("compute_raises_left_to_C01", f"{type(e).__name__}:{exc_site(e)}")
        return problems, None
    if vsame(v, base):
        ctx.count("compute_differs_from_numpy_left_to_C01")
        return problems, None
    if other_var is not None:
        # the passenger collection must itself be computable, or a failure of dask.compute(x, other) says nothing about x
        try:
            if vsame(other_var, fresh(other).compute()):
                other = None
        except Exception:
            other = None
        if other is None:
            ctx.count("passenger_not_computable_dropped")
    follows = {}
    # (1) each entry point on a fresh collection
    for entry in ENTRIES:
        x = fresh(v.da)
        ret = check_entry(entry, g, v, x, other, ctx, problems, z)
        if ret is not None:
            fl = (case or {}).get("follows", {}).get(entry) if case else None
            if case is None or fl is not None:
                st = follow_on(g, v, ret, entry, ctx, problems, z, follow=fl)
                if st is not None:
                    follows[entry] = st
    # (2) all entry points on one long-lived collection, random order (caches warm)
    x = fresh(v.da)
    order = list(ENTRIES)
    rng.shuffle(order)
    for entry in order:
        check_entry(entry + "", g, v, x, other, ctx, problems, z + "|warm")
    return problems, follows


def run_one(rng, ctx):
    big = ctx.tier == "thorough"
    g = Prog(rng, max_extent=rng.choice([7, 9, 12]) if big else 7, max_size=6000 if big else 3000, weights=WEIGHTS)
    g.grow(rng.randint(1, 9 if big else 6))
    tally_prog(g, ctx)
    non_leaf = [v for v, s in zip(g.vars, g.steps) if s["in"]]
    if not non_leaf:
        return
    v = non_leaf[-1]
    others = [u for u in g.vars if u.da is not None and u.id != v.id]
    ov = rng.choice(others) if others and rng.random() < 0.85 else None
    steps, remap = g.closure_multi([v.id] + ([ov.id] if ov is not None else []))
    case = {"steps": steps, "x": remap[v.id], "other": remap[ov.id] if ov is not None else None, "rseed": rng.randrange(10**9)}
    ctx.current_case = case
    import random

    problems, follows = check_program(g, v, ctx, random.Random(case["rseed"]), other_var=ov)
    case["follows"] = follows or {}
    ctx.count("programs_checked")
    tally_ops(steps, ctx)
    nops = sum(1 for s in steps if s["in"])
    try:
        nb = int(np.prod(v.da.numblocks))
    except Exception:
        nb = 1
    for entry in ENTRIES:
        ctx.seen((root_class(v.da), entry, tuple(sorted((follows or {}).keys()))), nops >= 2 and nb >= 2 and v.np.size > 0)
    ctx.seen(g.signature(v.id), nops >= 2 and nb >= 2 and v.np.size > 0)
    if len(ctx.samples) < 2 and nops >= 2:
        ctx.sample({"steps": steps, "root": root_class(v.da), "follow_on": {k: s[-1]["op"] for k, s in (follows or {}).items()}})
    seen = set()
    for kind, msg, mech in problems:
        if mech in seen:
            continue
        seen.add(mech)
        ctx.violation(kind, f"{msg}\n  program: {steps}", case=case, mech=mech)


def replay_case(case, ctx):
    import random

    try:
        g = Prog.replay(case["steps"])
    except ReplayRefused as e:
        ctx.violation("build_raises_on_replay", str(e), case=case, mech="replay_refused")
        return
    v = g.vars[case.get("x", len(g.vars) - 1)]
    ov = g.vars[case["other"]] if case.get("other") is not None else None
    problems, _ = check_program(g, v, ctx, random.Random(case.get("rseed", 0)), case=case, other_var=ov)
    seen = set()
    for kind, msg, mech in problems:
        if mech not in seen:
            seen.add(mech)
            ctx.violation(kind, msg, case=case, mech=mech)


def finalize(ctx):
    if ctx.counters.get("entry_points_agreed", 0) == 0:
        ctx.inconc("no entry point was compared")
    if ctx.counters.get("follow_on_ops", 0) == 0:
        ctx.inconc("no follow-on operation was applied to a returned collection")
