"""C27 - transfer estimates are well-formed (invariant walk over every node + contract on moved_fraction)."""

from __future__ import annotations

import importlib
import math
import random

import numpy as np

from vf import contracts as K
from vf.checks.c13 import compositions
from vf.common import exc_site, now, short_tb
from vf.gen import Prog, ReplayRefused
from vf.util import tally_ops, tally_prog

PROPERTY = "C27"
WORKERS = {"quick": 16, "thorough": 16}
TIME = {"quick": 40, "thorough": 240}
BOX = {"quick": 8, "thorough": 10}
EXHAUSTIVE = "moved_fraction over every ordered pair of chunkings of every n <= N (quick N=8, thorough N=10)"
TECHNIQUE = "runtime invariant monitor walking every node of the raw/simplified/lowered/fused expression of generated programs, plus an icontract postcondition on the real moved_fraction driven exhaustively"
RULE = (
    "for every G program: every ArrayExpr node of the raw, simplified, lowered and fused expression (and Array.transfer_bytes) must give a "
    "2-tuple of numbers with 0 <= min <= max, NaN only when a chunk size of the node or its inputs is unknown; Rechunk to identical chunks, "
    "ChunksOverride, RootAlias, ChunksFreeze, Concatenate must give (0, 0). moved_fraction: " + EXHAUSTIVE + " and random pairs up to n=200: "
    "result in [0,1], 0 for identical layouts and pure splits; directed nodes: Rechunk(x, x.chunks) with single-block axes, takes/shuffles repeating rows of a small block. distinct = (node class, phase) x program signature; non-trivial = node with "
    ">= 2 blocks and >= 1 array dependency"
)
ASSUMPTIONS = ["reading transfer_bytes never computes (property read only)"]
ZERO_CLASSES = {"ChunksOverride", "RootAlias", "ChunksFreeze", "Concatenate"}


def unknown(node):
    try:
        for n in [node] + [d for d in node.dependencies()]:
            for dim in n.chunks:
                for c in dim:
                    if isinstance(c, float) and math.isnan(c):
                        return True
    except Exception:
        return True
    return False


def check_node(node, phase, ctx):
    cls = type(node).__name__
    try:
        node.chunks
    except Exception:
        ctx.count("nodes_without_chunks")
        return None
    try:
        t = node.transfer_bytes
    except Exception as e:
        if "adjust_chunks specified with" in str(e):
            # the recorded C01/C08 finding (a node that recorded its input's block count over a native sliding-window
            # kernel): here it is the chunks of a node under the one being asked that cannot be derived
            return ("transfer_raises", f"{cls}.transfer_bytes raised {short_tb(e, 4)} [{phase}]", "transfer_raises:baked_block_count:Dimension_has_blocks")
        return ("transfer_raises", f"{cls}.transfer_bytes raised {short_tb(e, 4)} [{phase}]", f"transfer_raises:{cls}:{type(e).__name__}")
    ctx.tab("nodes_checked", f"{cls}")
    ctx.count("nodes_checked")
    if not isinstance(t, tuple) or len(t) != 2:
        return ("not_a_pair", f"{cls}.transfer_bytes = {t!r} [{phase}]", f"not_a_pair:{cls}")
    lo, hi = t
    try:
        lo, hi = float(lo), float(hi)
    except Exception:
        return ("not_numbers", f"{cls}.transfer_bytes = {t!r} [{phase}]", f"not_numbers:{cls}")
    if math.isnan(lo) or math.isnan(hi):
        if not unknown(node):
            return ("nan_with_known_chunks", f"{cls}.transfer_bytes = {t!r} with known chunks {node.chunks} [{phase}]", f"nan_known:{cls}")
        ctx.count("nan_with_unknown_chunks")
        return None
    if lo < 0 or lo > hi:
        return ("bad_order", f"{cls}.transfer_bytes = ({lo}, {hi}) chunks={node.chunks} [{phase}]", f"bad_order:{cls}")
    zero = cls in ZERO_CLASSES
    if cls in ("Rechunk", "TasksRechunk"):
        try:
            dep = node.dependencies()[0]
            if dep.chunks == node.chunks:
                zero = True
                ctx.count("identity_rechunks_seen")
        except Exception:
            pass
    if zero and (lo != 0 or hi != 0):
        return ("alias_moves_bytes", f"{cls}.transfer_bytes = ({lo}, {hi}) but it is an alias/identity node [{phase}]", f"alias_moves:{cls}")
    return None


def check_expr(x, ctx, sig):
    from dask_array._expr import ArrayExpr

    out = []
    expr = x.expr
    phases = [("raw", lambda: expr)]
    phases.append(("simplified", lambda: expr.simplify()))
    phases.append(("lowered", lambda: expr.simplify().lower_completely()))
    phases.append(("fused", lambda: expr.optimize()))
    phases.append(("materialized", lambda: type(x)(expr)._lowered_expr))
    for phase, fn in phases:
        try:
            e = fn()
        except Exception:
            ctx.count(f"phase_raised:{phase}")
            continue
        for node in e.walk():
            if not isinstance(node, ArrayExpr):
                continue
            r = check_node(node, phase, ctx)
            try:
                nt = int(np.prod(node.numblocks)) >= 2 and any(isinstance(d, ArrayExpr) for d in node.dependencies())
            except Exception:
                nt = False
            ctx.seen((type(node).__name__, phase, sig), nt)
            if r is not None:
                out.append(r)
    try:
        t = x.transfer_bytes
        ctx.count("collection_transfer_bytes")
        lo, hi = float(t[0]), float(t[1])
        if not (math.isnan(lo) or math.isnan(hi)) and (lo < 0 or lo > hi):
            out.append(("bad_order", f"Array.transfer_bytes = {t!r}", "bad_order:Array"))
    except Exception as e:
        ctx.count("collection_transfer_raised")
    return out


def run_all(ctx):
    K.install("moved")
    E = importlib.import_module("dask_array._expr")
    N = BOX[ctx.tier]
    i = 0
    for n in range(1, N + 1):
        comps = list(compositions(n))
        for a in comps:
            i += 1
            if i % ctx.nworkers != ctx.index:
                continue
            for b in comps:
                E.moved_fraction(a, b)
            ctx.evaluations += len(comps)
    ctx.count("exhaustive_box_completed")
    r = random.Random(f"{ctx.seed}:{ctx.index}")
    for _ in range(3000 if ctx.tier == "quick" else 100000):
        n = r.randint(1, 200)
        a = _rc(r, n)
        b = _rc(r, n) if r.random() < 0.7 else _split(r, a)
        E.moved_fraction(a, b)
        ctx.evaluations += 1
    for v in K.flush_to(ctx):
        ctx.violation(v["mech"].split(":")[0], v["msg"], case={"fn": v["fn"], "call": v["call"]}, mech=v["mech"])
    directed(ctx)
    # expression walks
    nprog = 0
    big = ctx.tier == "thorough"
    while now() < ctx.deadline and nprog < (2500 if not big else 100000):
        nprog += 1
        rng = random.Random(f"{ctx.seed}:{ctx.index}:p{nprog}")
        g = Prog(rng, max_extent=9 if big else 7, max_size=4000, weights={"#rechunk": 3.0, "#combine": 2.0, "#window": 1.5})
        g.grow(rng.randint(1, 8))
        tally_prog(g, ctx)
        non_leaf = [v for v, s in zip(g.vars, g.steps) if s["in"]]
        if not non_leaf:
            continue
        v = non_leaf[-1]
        case = {"steps": g.closure(v.id)}
        ctx.current_case = case
        probs = check_expr(v.da, ctx, g.signature(v.id))
        ctx.count("programs_walked")
        ctx.evaluations += 1
        tally_ops(case["steps"], ctx)
        if len(ctx.samples) < 2:
            ctx.sample({"steps": case["steps"]})
        for kind, msg, mech in probs[:2]:
            ctx.violation(kind, f"{msg}\n  program: {case['steps']}", case=case, mech=mech)
    for v in K.flush_to(ctx):
        ctx.violation(v["mech"].split(":")[0], v["msg"], case={"fn": v["fn"], "call": v["call"]}, mech=v["mech"])


def directed_case(case, ctx):
    """Hand-aimed nodes the random programs rarely build: a Rechunk whose target equals its input's layout (single-block
    axes included), and shuffles/takes whose index lists repeat rows of a small block many times."""
    import dask_array as da
    from dask_array._rechunk import Rechunk

    kind = case["directed"]
    chunks = tuple(tuple(c) for c in case["chunks"])
    shape = tuple(sum(c) for c in chunks)
    x = da.from_array(np.arange(int(np.prod(shape)), dtype=case.get("dtype", "f8")).reshape(shape), chunks=chunks)
    xs = []
    if kind == "identity_rechunk":
        xs.append(("Rechunk(x, x.chunks)", da.Array(Rechunk(x.expr, x.chunks)) if hasattr(da, "Array") else None))
        xs.append(("x.rechunk(x.chunks, balance=True)", x.rechunk(x.chunks, balance=True)))
        xs.append(("(x+1).rechunk(x.chunks, balance=True)", (x + 1).rechunk(x.chunks, balance=True)))
    elif kind == "repeated_take":
        ax = case["axis"]
        idx = list(case["index"])
        xs.append((f"take({idx}, axis={ax})", da.take(x, idx, axis=ax)))
        sl = [slice(None)] * len(shape)
        sl[ax] = idx
        xs.append((f"x[{idx}] on axis {ax}", x[tuple(sl)]))
    elif kind == "shuffle_groups":
        ax = case["axis"]
        xs.append((f"shuffle({case['groups']}, axis={ax})", x.shuffle([list(gp) for gp in case["groups"]], axis=ax)))
    out = []
    for label, y in xs:
        if y is None:
            continue
        ctx.count(f"directed:{kind}")
        for kind_, msg, mech in check_expr(y, ctx, f"directed:{kind}"):
            out.append((kind_, f"{label} over chunks {chunks}: {msg}", mech))
    return out


def directed(ctx):
    r = random.Random(f"{ctx.seed}:{ctx.index}:directed")
    n = 60 if ctx.tier == "quick" else 1500
    for _ in range(n):
        nd = r.randint(1, 3)
        chunks = []
        for _a in range(nd):
            t = r.random()
            ext = r.randint(1, 12)
            if t < 0.35:
                chunks.append((ext,))
            else:
                c = list(_rc(r, ext))
                if r.random() < 0.4 and ext > 2:
                    c = [ext - 2, 2] if r.random() < 0.5 else [ext - 1, 1]
                chunks.append(tuple(c))
        kind = r.choice(["identity_rechunk", "repeated_take", "shuffle_groups"])
        case = {"directed": kind, "chunks": [list(c) for c in chunks]}
        if kind != "identity_rechunk":
            ax = r.randrange(nd)
            ext = sum(chunks[ax])
            last = chunks[ax][-1]
            pool = list(range(ext - last, ext)) if r.random() < 0.6 else list(range(ext))
            case["axis"] = ax
            if kind == "repeated_take":
                k = r.randint(2, 12)
                base = [r.choice(pool) for _ in range(r.randint(1, 2))]
                case["index"] = [r.choice(base) for _ in range(k)]
            else:
                groups = []
                for _g in range(r.randint(1, 3)):
                    base = [r.choice(pool) for _ in range(r.randint(1, 2))]
                    groups.append([r.choice(base) for _ in range(r.randint(1, 9))])
                case["groups"] = groups
        ctx.current_case = case
        try:
            probs = directed_case(case, ctx)
        except Exception as e:
            ctx.count("directed_build_raised")
            ctx.tab("directed_build_raised", f"{type(e).__name__}:{exc_site(e)}")
            continue
        ctx.evaluations += 1
        for kind_, msg, mech in probs[:2]:
            ctx.violation(kind_, msg, case=case, mech=mech)


def _rc(r, n):
    out, left = [], n
    while left > 0:
        c = r.randint(1, max(1, min(left, max(2, n // r.choice([2, 5, 20])))))
        out.append(c)
        left -= c
    return tuple(out)


def _split(r, a):
    out = []
    for c in a:
        if c > 1 and r.random() < 0.5:
            k = r.randint(1, c - 1)
            out += [k, c - k]
        else:
            out.append(c)
    return tuple(out)


def replay_case(case, ctx):
    if "fn" in case:
        K.install("moved")
        E = importlib.import_module("dask_array._expr")
        E.moved_fraction(tuple(case["call"][0]), tuple(case["call"][1]))
        for v in K.flush_to(ctx):
            ctx.violation(v["mech"].split(":")[0], v["msg"], case=case, mech=v["mech"])
        return
    if "directed" in case:
        for kind, msg, mech in directed_case(case, ctx)[:3]:
            ctx.violation(kind, msg, case=case, mech=mech)
        return
    try:
        g = Prog.replay(case["steps"])
    except ReplayRefused as e:
        ctx.violation("build_raises_on_replay", str(e), case=case, mech="replay_refused")
        return
    for kind, msg, mech in check_expr(g.vars[-1].da, ctx, "replay")[:3]:
        ctx.violation(kind, msg, case=case, mech=mech)


def finalize(ctx):
    if ctx.counters.get("contract_evals:moved_fraction", 0) == 0:
        ctx.inconc("contract on moved_fraction was never evaluated")
    if ctx.counters.get("nodes_checked", 0) == 0:
        ctx.inconc("no expression node was checked")


RULE += (
    ' Directed nodes: Rechunk(x, x.chunks) with single-block axes, takes/shuffles repeating rows of a small block.'
)
