"""C18 - reductions are independent of chunking and tree shape (directed differential monitor)."""

from __future__ import annotations

import random
import warnings

import numpy as np

from vf.common import exc_site, msg_key, short_tb
from vf.gen import G_for_index, absmax, dyadic, enc_index, dec_index, leaf_values, rand_chunks, rand_composition
from vf.oracles import same

PROPERTY = "C18"
WORKERS = {"quick": 16, "thorough": 16}
CASES = {"quick": 2500, "thorough": 20000}
TIME = {"quick": 45, "thorough": 240}
CASE_TIMEOUT = 120
TECHNIQUE = (
    "runtime monitoring with a NumPy oracle: one array is reduced under 3-5 different chunkings (many-block layouts that force deep trees) "
    "and split_every values (int and per-axis dict); every result is compared with NumPy and all results with each other; a slice of the "
    "reduction (pushed through it by the optimizer) is compared with the slice of NumPy's reduction; an observer on PartialReduce counts "
    "tree levels so that deep trees are known to have been built"
)
RULE = (
    "reductions sum, prod, min, max, any, all, mean, var, std, moment, nansum, nanprod, nanmin, nanmax, nanmean, nanvar, nanstd, argmin, "
    "argmax, nanargmin, nanargmax, count_nonzero, topk, argtopk, ptp, average(weights) over shapes ndim 1-4 (extents 0-12, thorough 0-24), "
    "axis None/int/negative/tuple, keepdims, ddof, dtype=, split_every in {2,3,4,16,{axis:k}}, dtypes bool/int/uint/float/complex, NaN "
    "patterns none/some/all-NaN lanes, ties. distinct = (reduction, axis kind, keepdims, split kind, dtype kind); non-trivial = >= 3 "
    "chunkings with a tree of depth >= 2 somewhere and a non-empty result"
)
ASSUMPTIONS = [
    "NumPy is the ground truth; where NumPy raises (empty min/max, all-NaN nanarg*) the case is not applicable",
    "float reductions whose partial sums are not exactly representable are compared with 4096*eps relative to the data's magnitude",
]

REDS = ["sum", "prod", "min", "max", "any", "all", "mean", "var", "std", "moment", "nansum", "nanprod", "nanmin", "nanmax", "nanmean", "nanvar", "nanstd", "argmin", "argmax", "nanargmin", "nanargmax", "count_nonzero", "topk", "argtopk", "ptp", "average"]
INEXACT = {"mean", "var", "std", "moment", "nanmean", "nanvar", "nanstd", "average"}
DEPTH = {"levels": 0, "max": 0}


def setup(ctx):
    try:
        from dask_array.reductions._reduction import PartialReduce

        orig = PartialReduce._layer
        if not getattr(orig, "_vf", False):

            def layer(self):
                DEPTH["levels"] += 1
                return orig(self)

            layer._vf = True
            PartialReduce._layer = layer
    except Exception:
        pass


def gen_case(rng, big):
    nd = rng.choice([1, 1, 2, 2, 2, 3, 3, 4])
    mx = 24 if big else 12
    shape = []
    for _ in range(nd):
        r = rng.random()
        shape.append(0 if r < 0.04 else 1 if r < 0.1 else rng.randint(2, mx if nd <= 2 else max(3, mx // nd)))
    shape = tuple(shape)
    red = rng.choice(REDS)
    dtype = rng.choice(["f8", "f8", "f8", "i8", "i4", "u1", "bool", "f4", "c16"])
    if red.startswith("nan") or red in ("moment",):
        dtype = rng.choice(["f8", "f8", "f4"])
    if red in ("prod", "nanprod"):
        dtype = rng.choice(["i8", "f8"])
    if red in ("topk", "argtopk", "ptp") and dtype in ("bool", "c16"):
        dtype = "f8"
    if red in ("argmin", "argmax", "min", "max") and dtype == "c16":
        dtype = "f8"
    vals = "perm"
    if np.dtype(dtype).kind == "f" and rng.random() < 0.35:
        vals = "nan"
    elif rng.random() < 0.3:
        vals = "ties"
    nan_lane = vals == "nan" and rng.random() < 0.3
    # axis
    r = rng.random()
    if r < 0.25:
        axis = None
    elif r < 0.7 or nd == 1:
        axis = rng.randrange(nd) - (nd if rng.random() < 0.3 else 0)
    else:
        k = rng.randint(1, nd)
        axis = sorted(rng.sample(range(nd), k))
        if rng.random() < 0.3:
            axis = [a - nd for a in axis]
    if red in ("topk", "argtopk"):
        axis = rng.randrange(nd) - (nd if rng.random() < 0.3 else 0)
    if red in ("argmin", "argmax", "nanargmin", "nanargmax") and isinstance(axis, list):
        axis = axis[0]
    p = {
        "shape": list(shape), "dtype": dtype, "vals": vals, "nan_lane": nan_lane, "seed": rng.randrange(10**6), "red": red, "axis": axis,
        "keepdims": rng.random() < 0.35, "ddof": rng.choice([0, 0, 1]), "order": rng.choice([2, 3, 4]), "k": rng.choice([1, 2, 3, -1, -2]),
        "out_dtype": rng.choice([None, None, None, "f8", "f4"]) if red in ("sum", "mean", "nansum") else None,
        "weights": rng.random() < 0.6,
    }
    nlay = rng.randint(3, 5)
    p["layouts"] = []
    for i in range(nlay):
        style = rng.choice(["ones", "random", "random", "uniform", "two", "whole"]) if i else "ones" if rng.random() < 0.5 else "random"
        ch = [list(rand_composition(rng, n, style if rng.random() < 0.7 else None)) for n in shape]
        se = rng.choice([None, 2, 2, 3, 4, 16, "dict"])
        p["layouts"].append({"chunks": ch, "split_every": se})
    # a slice of the result
    p["index_seed"] = rng.randrange(10**6)
    return p


def data_of(p):
    a = leaf_values(tuple(p["shape"]), p["dtype"], p["vals"], p["seed"])
    if p["nan_lane"] and a.ndim >= 1 and a.size:
        a = a.copy()
        idx = [slice(None)] * a.ndim
        ax = (p["axis"] if isinstance(p["axis"], int) else 0) % a.ndim
        other = (ax + 1) % a.ndim if a.ndim > 1 else None
        if other is not None:
            idx[other] = 0
            a[tuple(idx)] = np.nan
        else:
            a[...] = np.nan
    if p["red"] in ("prod", "nanprod") and a.size:
        a = np.sign(a) * (np.abs(a) % 3 + (1 if a.dtype.kind != "f" else 0.5))
        a = a.astype(p["dtype"])
    return a


def ax_arg(axis):
    return tuple(axis) if isinstance(axis, list) else axis


def np_reduce(p, a):
    red, axis, kd = p["red"], ax_arg(p["axis"]), p["keepdims"]
    with warnings.catch_warnings():
        warnings.simplefilter("ignore")
        with np.errstate(all="ignore"):
            if red in ("var", "std", "nanvar", "nanstd"):
                return getattr(np, red)(a, axis=axis, keepdims=kd, ddof=p["ddof"])
            if red == "moment":
                m = a.mean(axis=axis, keepdims=True)
                return ((a - m) ** p["order"]).mean(axis=axis, keepdims=kd)
            if red in ("argmin", "argmax", "nanargmin", "nanargmax"):
                return getattr(np, red)(a, axis=axis, keepdims=kd)
            if red == "count_nonzero":
                return np.count_nonzero(a, axis=axis, keepdims=kd)
            if red in ("topk", "argtopk"):
                k = p["k"]
                n = a.shape[axis]
                if abs(k) > n:
                    raise ValueError("k larger than axis")
                order = np.argsort(a, axis=axis, kind="stable")
                if k > 0:
                    idx = np.flip(order, axis=axis)
                    # largest first; stable among ties is not defined by the property: ties handled by the caller
                    idx = np.take(idx, range(k), axis=axis)
                else:
                    idx = np.take(order, range(-k), axis=axis)
                return idx if red == "argtopk" else np.take_along_axis(a, idx, axis=axis)
            if red == "ptp":
                return np.ptp(a, axis=axis, keepdims=kd)
            if red == "average":
                w = weights_of(p, a)
                return np.average(a, axis=axis, weights=w, keepdims=kd)
            kw = {}
            if p["out_dtype"]:
                kw["dtype"] = p["out_dtype"]
            return getattr(np, red)(a, axis=axis, keepdims=kd, **kw)


def weights_of(p, a):
    if not p["weights"]:
        return None
    r = np.random.default_rng(p["seed"] + 1)
    return (r.integers(1, 5, size=a.shape)).astype("f8")


def da_reduce(p, x, se, da, a):
    red, axis, kd = p["red"], ax_arg(p["axis"]), p["keepdims"]
    kw = {}
    if se is not None:
        if se == "dict":
            axes = range(x.ndim) if axis is None else ([axis] if isinstance(axis, int) else list(axis))
            kw["split_every"] = {int(ax) % x.ndim: 2 + (i % 2) for i, ax in enumerate(axes)}
        else:
            kw["split_every"] = se
    if red in ("var", "std", "nanvar", "nanstd"):
        return getattr(da, red)(x, axis=axis, keepdims=kd, ddof=p["ddof"], **kw)
    if red == "moment":
        return da.moment(x, p["order"], axis=axis, keepdims=kd, **kw)
    if red in ("argmin", "argmax", "nanargmin", "nanargmax"):
        return getattr(da, red)(x, axis=axis, keepdims=kd, **kw)
    if red == "count_nonzero":
        return da.count_nonzero(x, axis=axis, keepdims=kd, **kw)
    if red in ("topk", "argtopk"):
        return getattr(da, red)(x, p["k"], axis=axis, **kw)
    if red == "ptp":
        return da.ptp(x, axis=axis, keepdims=kd)
    if red == "average":
        w = weights_of(p, a)
        wd = None if w is None else da.from_array(w, chunks=x.chunks)
        return da.average(x, axis=axis, weights=wd, keepdims=kd)
    if p["out_dtype"]:
        kw["dtype"] = p["out_dtype"]
    return getattr(da, red)(x, axis=axis, keepdims=kd, **kw)


def check_case(p, ctx):
    import dask_array as da

    problems = []
    a = data_of(p)
    red = p["red"]
    try:
        expected = np.asarray(np_reduce(p, a))
    except Exception:
        ctx.count("not_applicable_numpy_raises")
        return problems, False
    inexact = 1 if (red in INEXACT or (red in ("prod", "nanprod") and a.dtype.kind in "fc") or (a.dtype.kind in "fc" and not dyadic(a)) or p["out_dtype"] == "f4" or a.dtype == np.float32 and red in ("sum", "nansum", "prod", "nanprod")) else 0
    mag = absmax(a) if red not in ("var", "std", "nanvar", "nanstd", "moment") else absmax(a) ** (p["order"] if red == "moment" else 2)
    ties = p["vals"] == "ties" or a.dtype.kind in "bu" or (a.size and len(np.unique(a[np.isfinite(a)] if a.dtype.kind == "f" else a)) < a.size)
    results = []
    deep = False
    for lay in p["layouts"]:
        chunks = tuple(tuple(c) for c in lay["chunks"])
        try:
            x = da.from_array(a, chunks=chunks)
            DEPTH["levels"] = 0
            y = da_reduce(p, x, lay["split_every"], da, a)
        except Exception as e:
            ctx.tab("refused", f"{red}:{type(e).__name__}")
            continue
        label = f"{red}|chunks={[len(c) for c in chunks]}|split_every={lay['split_every']}"
        try:
            got = y.compute()
        except Exception as e:
            problems.append(("reduction_raises", f"{label}: {short_tb(e)}", f"{red}:raise:{type(e).__name__}:{exc_site(e)}:{msg_key(e)}"))
            continue
        ctx.count("reductions_computed")
        if DEPTH["levels"] >= 2:
            deep = True
        ctx.mx("max_tree_levels", DEPTH["levels"])
        if red in ("topk", "argtopk") and ties:
            # order among equal values is unspecified: compare the selected values only
            vals = np.take_along_axis(a, np.asarray(got), axis=p["axis"]) if red == "argtopk" else np.asarray(got)
            evals = np.take_along_axis(a, expected, axis=p["axis"]) if red == "argtopk" else expected
            why = same(evals, vals, 0, 1.0, check_dtype=False)
        else:
            why = same(expected, got, inexact, mag, check_dtype=not (red in ("argtopk",)))
        if why:
            problems.append(("differs_from_numpy", f"{label}: {why}", f"{red}:mismatch:{why.split()[0]}"))
        results.append((label, np.asarray(got), y))
    # tree-shape independence stated directly
    for (l1, g1, _), (l2, g2, _) in zip(results, results[1:]):
        if red in ("topk", "argtopk") and ties:
            continue
        ctx.count("pairs_compared")
        why = same(g1, g2, inexact, mag)
        if why:
            problems.append(("chunking_changes_result", f"{l1} vs {l2}: {why}", f"{red}:chunking_dependent:{why.split()[0]}"))
    # slice pushed through the reduction
    if results and expected.ndim >= 1 and expected.size:
        from vf.gen import rand_index

        g = G_for_index(random.Random(p["index_seed"]))
        idx = rand_index(g, expected.shape, fancy=False, newaxis=False)
        try:
            eidx = expected[idx]
            label, _, y = results[random.Random(p["index_seed"]).randrange(len(results))]
            try:
                got = y[idx].compute()
                ctx.count("sliced_reductions")
                if red in ("topk", "argtopk") and ties:
                    pass
                else:
                    why = same(eidx, got, inexact, mag, check_dtype=red != "argtopk")
                    if why:
                        problems.append(("slice_of_reduction_differs", f"{label}[{enc_index(idx)}]: {why}", f"{red}:slice:{why.split()[0]}"))
            except Exception as e:
                problems.append(("slice_of_reduction_raises", f"{label}[{enc_index(idx)}]: {short_tb(e)}", f"{red}:slice:raise:{type(e).__name__}:{exc_site(e)}:{msg_key(e)}"))
        except Exception:
            pass
    return problems, deep and expected.size > 0 and len(results) >= 3


def run_one(rng, ctx):
    p = gen_case(rng, ctx.tier == "thorough")
    ctx.current_case = p
    problems, nontrivial = check_case(p, ctx)
    ctx.count("cases_checked")
    axis_kind = "none" if p["axis"] is None else "tuple" if isinstance(p["axis"], list) else "neg" if p["axis"] < 0 else "int"
    splits = sorted({str(l["split_every"]) for l in p["layouts"]})
    ctx.seen((p["red"], axis_kind, p["keepdims"], tuple(splits), np.dtype(p["dtype"]).kind, p["vals"]), nontrivial)
    ctx.tab("reductions", f"{p['red']}|axis={axis_kind}|keepdims={p['keepdims']}")
    if len(ctx.samples) < 2 and nontrivial:
        ctx.sample(p)
    seen = set()
    for kind, msg, mech in problems:
        if mech in seen:
            continue
        seen.add(mech)
        ctx.violation(kind, f"{msg}\n  case: { {k: v for k, v in p.items() if k != 'layouts'} }", case=p, mech=mech)


def replay_case(case, ctx):
    problems, _ = check_case(case, ctx)
    seen = set()
    for kind, msg, mech in problems:
        if mech not in seen:
            seen.add(mech)
            ctx.violation(kind, msg, case=case, mech=mech)


def finalize(ctx):
    if ctx.counters.get("reductions_computed", 0) == 0:
        ctx.inconc("no reduction was computed")
    if ctx.maxima.get("max_tree_levels", 0) < 2:
        ctx.inconc("no multi-level reduction tree was observed")
