"""C26 - xarray integration is strictly opt-in (import-order monitor in fresh interpreters)."""

from __future__ import annotations

import json
import os
import pkgutil
import random
import subprocess
import tempfile

from vf.common import PY, REPO, VERIF, now

PROPERTY = "C26"
WORKERS = {"quick": 8, "thorough": 16}
TIME = {"quick": 50, "thorough": 240}
TECHNIQUE = (
    "runtime monitoring in fresh interpreters: each child performs one import order (every dask_array submodule, xarray at a chosen "
    "position) and, after every single import, probes sys.modules for dask_array._xarray, dask_array.xarray.isactive() and finally "
    "xarray's 'dask' chunk manager and the type .chunk() produces; a sys.addaudithook('import') log names the import that pulled "
    "dask_array._xarray in; importlib.metadata is searched for an xarray.chunkmanagers entry point; after register() 31 xarray programs "
    "on chunked objects are compared with the same programs on NumPy-backed objects"
)
RULE = (
    "import orders over the ~150 importable dask_array submodules (pkgutil.walk_packages, tests and _rust excluded): all submodules then "
    "xarray, xarray then all submodules (state probed between every two imports), random orders of 3-8 submodules with xarray at a random "
    "position, dask.optimize/dask.persist/compute of an xarray Dataset holding a dask_array.Array without register(); then register() "
    "(also after legacy-chunked objects exist) and arithmetic / reductions / rolling / isel / sel / coarsen / concat / where / "
    "apply_ufunc(vectorize) / map_blocks programs. distinct = import order or (program, chunking); non-trivial = an order with xarray and "
    ">= 3 submodules probed after every step"
)
ASSUMPTIONS = ["the probe itself calls xarray's list_chunkmanagers only at the end of an order (it is cached by xarray)"]


def submodules():
    import dask_array

    names = []
    for m in pkgutil.walk_packages(dask_array.__path__, prefix="dask_array."):
        n = m.name
        if ".tests" in n or n.endswith("._rust") or "_test_utils" in n or n.endswith(".conftest"):
            continue
        names.append(n)
    return sorted(names)


def child(spec, tmp, tag):
    sp = os.path.join(tmp, f"spec_{tag}.json")
    op = os.path.join(tmp, f"out_{tag}.json")
    json.dump(spec, open(sp, "w"))
    env = dict(os.environ)
    env["PYTHONPATH"] = f"{VERIF}:{REPO}"
    env["PYTHONDONTWRITEBYTECODE"] = "1"
    try:
        p = subprocess.run([PY, "-m", "vf.c26_child", sp, op], env=env, cwd=VERIF, capture_output=True, text=True, timeout=300)
    except subprocess.TimeoutExpired:
        return None, "timeout"
    if p.returncode != 0 or not os.path.exists(op):
        return None, p.stderr[-400:]
    return json.load(open(op)), None


LEGACY_MANAGER = "xarray.namedarray.daskmanager.DaskManager"


def judge_imports(res, steps, ctx, label):
    """Before register(): dask_array._xarray never loaded, isactive() false, xarray's own DaskManager, .chunk() gives dask.array."""
    problems = []
    registered = False
    for rec in res["steps"]:
        st = rec["state"]
        ctx.count("probes")
        if rec["step"] == "REGISTER":
            registered = True
            if st.get("isactive") is not True:
                problems.append(("register_not_active", f"{label}: isactive() is {st.get('isactive')} right after register()", "after_register:not_active"))
            continue
        if registered:
            continue
        if "error" in rec and rec["step"] not in ("CHUNK", "DATASET"):
            ctx.tab("import_errors", f"{rec['step']}:{rec['error'].split(':')[0]}")
        if "error" in rec and rec["step"] == "DATASET":
            ctx.tab("dataset_protocol_errors", rec["error"].split(":")[0])
        loaded_ok = rec["step"] == "dask_array._xarray"  # importing the submodule itself loads it; it must still register nothing
        if st.get("_xarray_loaded") and not loaded_ok and not any(r["step"] == "dask_array._xarray" for r in res["steps"][: res["steps"].index(rec) + 1]):
            who = res.get("import_log", [])
            problems.append(("xarray_glue_imported", f"{label}: importing {rec['step']} loaded dask_array._xarray (import stack: {who[:1]})", f"import_loads__xarray:{rec['step'].split('.')[1] if '.' in rec['step'] else rec['step']}"))
            break
        if st.get("isactive") is True:
            problems.append(("active_without_register", f"{label}: isactive() became true after importing {rec['step']}", "active_without_register"))
            break
        if rec.get("chunk_type") and not rec["chunk_type"].startswith("dask.array"):
            problems.append(("chunk_type_changed", f"{label}: .chunk() produced {rec['chunk_type']} after importing {steps[: steps.index(rec['step'])][-1:]} without register()", "chunk_manager_changed_without_register"))
            break
    fin = res.get("final", {})
    if not registered and not problems:
        if fin.get("dask_manager") not in (None, LEGACY_MANAGER):
            problems.append(("manager_replaced", f"{label}: xarray's 'dask' chunk manager is {fin.get('dask_manager')} without register()", "chunk_manager_changed_without_register"))
        if fin.get("chunk_type") and not str(fin["chunk_type"]).startswith("dask.array"):
            problems.append(("chunk_type_changed", f"{label}: .chunk() produces {fin['chunk_type']} without register()", "chunk_manager_changed_without_register"))
        if fin.get("isactive") is True:
            problems.append(("active_without_register", f"{label}: isactive() is true without register()", "active_without_register"))
    if registered:
        if fin.get("dask_manager") != "dask_array._xarray.DaskArrayExprManager":
            problems.append(("register_ineffective", f"{label}: after register() the 'dask' manager is {fin.get('dask_manager')}", "after_register:manager"))
        if not str(fin.get("chunk_type", "")).startswith("dask_array"):
            problems.append(("register_ineffective", f"{label}: after register() .chunk() produces {fin.get('chunk_type')}", "after_register:chunk_type"))
    eps = res.get("entry_points")
    if isinstance(eps, list):
        for ep in eps:
            if "dask_array" in str(ep.get("value", "")) or str(ep.get("dist", "")).replace("_", "-") == "dask-array":
                problems.append(("entry_point", f"{label}: an xarray.chunkmanagers entry point belongs to dask-array: {ep}", "entry_point_present"))
    return problems


DATASET_STEPS = "DATASET"


def run_all(ctx):
    mods = submodules()
    ctx.notes["submodules"] = len(mods)
    rng = random.Random(f"{ctx.seed}:{ctx.index}")
    tmp = tempfile.mkdtemp(prefix="c26_", dir=os.path.join(VERIF, "scratch") if os.path.isdir(os.path.join(VERIF, "scratch")) else None)
    problems = []
    try:
        orders = []
        if ctx.index == 0:
            orders.append(("all_then_xarray", ["dask_array"] + mods + ["xarray", "CHUNK"]))
        elif ctx.index == 1:
            orders.append(("xarray_then_all", ["xarray", "CHUNK", "dask_array"] + mods + ["CHUNK"]))
        elif ctx.index == 2:
            sh = list(mods)
            rng.shuffle(sh)
            orders.append(("shuffled_all_then_register", ["xarray"] + sh + ["CHUNK", "REGISTER", "CHUNK"]))
        elif ctx.index == 3:
            orders.append(("dataset_protocol", ["xarray", "dask_array", "dask_array._xarray", "DATASET", "CHUNK"]))
            orders.append(("dataset_protocol2", ["dask_array", "DATASET", "xarray", "dask_array._backends", "DATASET", "CHUNK"]))
        n_random = 6 if ctx.tier == "quick" else 40
        for k in range(n_random):
            sub = rng.sample(mods, rng.randint(3, 8))
            pos = rng.randint(0, len(sub))
            steps = sub[:pos] + ["xarray"] + sub[pos:] + ["CHUNK"]
            if rng.random() < 0.3:
                steps = ["dask_array"] + steps
            if rng.random() < 0.35:
                steps = steps[:-1] + ["DATASET", "CHUNK"]
            orders.append((f"random_{k}", steps))
        for tag, steps in orders:
            if now() > ctx.deadline:
                ctx.count("stopped_by_time_cap")
                break
            res, err = child({"mode": "imports", "steps": steps}, tmp, tag)
            if res is None:
                ctx.inconc(f"child for order {tag} failed: {err}")
                continue
            ctx.evaluations += 1
            ctx.count("interpreters_spawned")
            ctx.count("imports_probed", len(steps))
            ctx.seen(tuple(steps), "xarray" in steps and len(steps) >= 4)
            ctx.tab("orders", tag.split("_")[0])
            if len(ctx.samples) < 2:
                ctx.sample({"order": steps[:12], "final": res.get("final")})
            for kind, msg, mech in judge_imports(res, steps, ctx, tag):
                problems.append((kind, msg, mech, {"mode": "imports", "steps": steps}))
        # compute after register()
        if ctx.index % 2 == 1 or ctx.index == 0:
            spec = {"mode": "compute", "legacy_first": ctx.index % 4 == 1, "seed": rng.randrange(10**6), "nx": rng.randint(6, 10), "ny": rng.randint(3, 5), "cx": rng.randint(1, 4), "cy": rng.randint(1, 3)}
            res, err = child(spec, tmp, "compute")
            if res is None:
                ctx.inconc(f"compute child failed: {err}")
            else:
                ctx.evaluations += 1
                ctx.count("interpreters_spawned")
                b, a = res["before_register"], res["after_register"]
                if b["isactive"] or not b["chunk_type"].startswith("dask.array"):
                    problems.append(("active_before_register", f"before register(): {b}", "chunk_manager_changed_without_register", spec))
                if not a["isactive"] or not a["chunk_type"].startswith("dask_array"):
                    problems.append(("register_ineffective", f"after register(): {a}", "after_register:chunk_type", spec))
                if res.get("legacy_object_after_register") not in (None, True):
                    problems.append(("legacy_object_broken", f"an object chunked before register() no longer computes: {res['legacy_object_after_register']}", "after_register:legacy_object", spec))
                for name, r in res["programs"].items():
                    ctx.count("xarray_programs")
                    ctx.tab("xarray_programs", f"{name}|{r['status']}")
                    ctx.seen(("prog", name, spec["cx"], spec["cy"]), True)
                    if r["status"] == "MISMATCH":
                        problems.append(("xarray_values_differ", f"{name}: chunked {r['got']} vs NumPy-backed {r['expected']} ({spec})", f"xarray_program:mismatch:{name}", spec))
                    elif r["status"] == "raises":
                        problems.append(("xarray_program_raises", f"{name}: {r['err']} ({spec})", f"xarray_program:raise:{name}:{r['err'].split(':')[0]}", spec))
                    elif r["status"] == "match" and not str(r.get("lazy_type", "")).startswith("dask_array"):
                        ctx.tab("lazy_types", f"{name}|{r.get('lazy_type')}")
    finally:
        import shutil

        shutil.rmtree(tmp, ignore_errors=True)
    seen = set()
    for kind, msg, mech, case in problems:
        if mech in seen:
            continue
        seen.add(mech)
        ctx.violation(kind, msg, case=case, mech=mech)


def replay_case(case, ctx):
    tmp = tempfile.mkdtemp(prefix="c26_")
    try:
        res, err = child(case, tmp, "replay")
        if res is None:
            ctx.inconc(f"replay child failed: {err}")
            return
        if case.get("mode") == "imports":
            for kind, msg, mech in judge_imports(res, case["steps"], ctx, "replay"):
                ctx.violation(kind, msg, case=case, mech=mech)
        else:
            for name, r in res["programs"].items():
                if r["status"] in ("MISMATCH", "raises"):
                    ctx.violation("xarray_program", f"{name}: {r}", case=case, mech=f"xarray_program:{'mismatch' if r['status'] == 'MISMATCH' else 'raise'}:{name}" + ("" if r["status"] == "MISMATCH" else ":" + r["err"].split(":")[0]))
    finally:
        import shutil

        shutil.rmtree(tmp, ignore_errors=True)


def finalize(ctx):
    if ctx.counters.get("probes", 0) == 0:
        ctx.inconc("no import order was probed")


def finalize_merged(m, tier):
    if m["counters"].get("xarray_programs", 0) == 0:
        m["inconclusive"].append("no xarray program was compared after register()")
    if m["counters"].get("imports_probed", 0) < 100:
        m["inconclusive"].append("fewer than 100 imports were probed")


RULE += (
    ' Datasets whose variables share one expression loaded by compute/load/persist; rolling along the second axis.'
)
