"""C14 - rechunking yields the requested chunks with unchanged values (spec normalization oracle + per-block monitor)."""

from __future__ import annotations

import math
import random

import dask
import numpy as np
from dask.core import flatten
from dask.utils import parse_bytes

from vf import rec
from vf import rewrites as R
from vf import sched
from vf.common import exc_site, msg_key, short_tb
from vf.gen import leaf_values, rand_composition
from vf.oracles import same
from vf.util import block_shape, graph_of

PROPERTY = "C14"
WORKERS = {"quick": 16, "thorough": 16}
CASES = {"quick": 2500, "thorough": 16000}
TIME = {"quick": 45, "thorough": 240}
CASE_TIMEOUT = 120
TECHNIQUE = (
    "runtime monitoring: an independent normalization of the spec (ints, tuples, dicts with negative axes, -1, None, explicit block tuples) "
    "gives the chunks x.rechunk(spec) must advertise; 'auto' / byte-limit / balance specs are checked as partitions within the limit and "
    "metamorphically (the same explicit spec from two source chunkings gives the same chunks); the instrumented scheduler fetches every "
    "block of the optimized and of the raw graph and compares its shape with the advertised grid and the assembled values with x; the "
    "rewrite recorder checks that every fired rewrite whose subject is a Rechunk keeps chunks and values"
)
RULE = (
    "sources: NumPy arrays, recording stores with a storage grid (aligned / misaligned / larger than the array), arrays with unknown sizes "
    "on an untouched axis; rechunk positions: directly on the source, above elemwise (two differently chunked operands), transpose, "
    "concatenate (target boundaries on / off / straddling the seam), expand_dims, slices (aligned, misaligned, integer axes), another "
    "rechunk (with balance), below a reduction, shared with a sibling consumer; specs: int, tuple of ints, tuple of tuples, dict (negative "
    "axes, None), -1, None entries, 'auto', byte strings, block_size_limit, balance=True, threshold, method='tasks'. distinct = (position, "
    "spec kind, source kind); non-trivial = the rechunk changes the layout of a multi-block array and blocks were inspected"
)
ASSUMPTIONS = ["for 'auto' / byte-string axes the oracle only demands a partition whose largest block is within max(limit x array.chunk-size-tolerance, one element x the fixed axes' block)"]

POSITIONS = ["source", "elemwise", "transpose", "concatenate", "expand_dims", "slice_below", "slice_above", "rechunk_rechunk", "reduction_above", "shared", "store", "unknown_axis", "where_out", "store_slice"]
SPECS = ["int", "tuple_ints", "tuple_tuples", "dict", "minus1", "none_entries", "auto", "bytes", "limit", "balance", "threshold", "tasks"]


def setup(ctx):
    R.REC.install()


def uniform(n, c):
    if n == 0:
        return (0,)
    q, r = divmod(n, c)
    return (c,) * q + ((r,) if r else ())


def gen_spec(rng, shape, chunks, kind):
    """Return (spec json, kwargs json). Explicit kinds only use values whose normalization is unambiguous."""
    nd = len(shape)
    kw = {}
    if kind in ("int", "balance", "threshold", "tasks"):
        c = rng.randint(1, max(1, max(shape) if shape else 1))
        spec = c
        if kind == "balance":
            kw["balance"] = True
        elif kind == "threshold":
            kw["threshold"] = rng.choice([1, 2, 8])
        elif kind == "tasks":
            kw["method"] = "tasks"
    elif kind == "tuple_ints":
        spec = [rng.randint(1, max(1, n)) for n in shape]
    elif kind == "tuple_tuples":
        spec = [list(rand_composition(rng, n)) for n in shape]
    elif kind == "dict":
        spec = {"dict": {}}
        for ax in rng.sample(range(nd), rng.randint(1, nd)) if nd else []:
            key = ax - nd if rng.random() < 0.4 else ax
            r = rng.random()
            n = shape[ax]
            spec["dict"][str(key)] = rng.randint(1, max(1, n)) if r < 0.5 else -1 if r < 0.65 else None if r < 0.75 else list(rand_composition(rng, n))
    elif kind == "minus1":
        spec = -1
    elif kind == "none_entries":
        spec = [None if rng.random() < 0.5 else rng.randint(1, max(1, n)) for n in shape]
    elif kind == "auto":
        spec = "auto" if rng.random() < 0.5 else ["auto" if rng.random() < 0.6 else rng.randint(1, max(1, n)) for n in shape]
        kw["config_chunk_size"] = rng.choice(["64B", "256B", "1KiB"])
    elif kind == "bytes":
        spec = rng.choice(["64B", "200B", "1KiB"])
    elif kind == "limit":
        spec = "auto"
        kw["block_size_limit"] = rng.choice([64, 200, 1024])
    else:
        raise ValueError(kind)
    return spec, kw


def dec_spec(spec):
    if isinstance(spec, dict) and "dict" in spec:
        return {int(k): (tuple(v) if isinstance(v, list) else v) for k, v in spec["dict"].items()}
    if isinstance(spec, list):
        return tuple(tuple(s) if isinstance(s, list) else s for s in spec)
    return spec


def expected_chunks(spec, kw, shape, chunks):
    """Independent normalization. Returns (per-axis expected chunks or None where only validity is demanded)."""
    nd = len(shape)
    out = [None] * nd
    explicit = [False] * nd

    def axis_norm(v, ax):
        n = shape[ax]
        if v is None:
            return tuple(chunks[ax])
        if isinstance(v, (list, tuple)):
            return tuple(v)
        if v == -1:
            return (n,)
        if isinstance(v, int):
            return uniform(n, v)
        return None  # 'auto' / bytes

    s = dec_spec(spec)
    if isinstance(s, dict):
        for ax in range(nd):
            out[ax] = tuple(chunks[ax])
            explicit[ax] = True
        for k, v in s.items():
            ax = k % nd
            out[ax] = axis_norm(v, ax)
            explicit[ax] = out[ax] is not None
    elif isinstance(s, tuple):
        for ax in range(nd):
            out[ax] = axis_norm(s[ax], ax)
            explicit[ax] = out[ax] is not None
    elif isinstance(s, int):
        for ax in range(nd):
            out[ax] = axis_norm(s, ax)
            explicit[ax] = True
    else:
        pass  # 'auto' or a byte string for all axes
    if kw.get("balance"):
        explicit = [False] * nd  # balanced sizes are checked as a partition + metamorphically
        out = [None] * nd
    return out, explicit


def make_source(rng, p, da):
    shape = tuple(p["shape"])
    a = leaf_values(shape, p["dtype"], "perm", p["seed"])
    chunks = tuple(tuple(c) for c in p["chunks"])
    if p["source"] == "numpy":
        return a, da.from_array(a, chunks=chunks), None
    grid = tuple(p["grid"])
    store = rec.RecStore(a, chunks=grid)
    return a, da.from_array(store, chunks=chunks), store


def gen_case(rng, big):
    nd = rng.choice([1, 1, 2, 2, 3])
    mx = 24 if big else 12
    shape = [rng.randint(1, mx) for _ in range(nd)]
    while int(np.prod(shape)) > 3000:
        shape = [max(1, s // 2) for s in shape]
    pos = rng.choice(POSITIONS)
    kind = rng.choice(SPECS)
    if pos == "unknown_axis" and nd < 2:
        pos = "source"
    p = {
        "shape": shape, "dtype": rng.choice(["f8", "f8", "i8", "i4", "f4"]), "seed": rng.randrange(10**6),
        "chunks": [list(rand_composition(rng, n)) for n in shape], "chunks2": [list(rand_composition(rng, n)) for n in shape],
        "source": "store" if pos in ("store", "store_slice") else "numpy", "grid": [rng.choice([1, 2, 3, 5, max(1, n // 2), n, n + 3]) for n in shape],
        "pos": pos, "kind": kind, "rseed": rng.randrange(10**9),
    }
    if p["source"] == "numpy" and rng.random() < 0.15:
        # a zero-width chunk in the source layout (boolean masks leave them behind): the block crosswalk must skip it
        ax = rng.randrange(nd)
        c = p["chunks"][ax]
        c.insert(rng.randint(0, len(c) - 1) if len(c) > 1 else 0, 0)
    return p


def build(p, da, rng):
    """Build (x = array the rechunk is applied to, its NumPy value, y = x.rechunk(spec) possibly under further ops, the final NumPy value,
    the rechunked collection itself, spec, kwargs)."""
    a, src, store = make_source(rng, p, da)
    pos = p["pos"]
    post = None
    if pos in ("source", "store"):
        x, xv = src, a
    elif pos == "elemwise":
        b = leaf_values(tuple(p["shape"]), p["dtype"], "perm", p["seed"] + 1)
        x, xv = src + da.from_array(b, chunks=tuple(tuple(c) for c in p["chunks2"])), a + b
    elif pos == "where_out":
        # ufunc(..., where=<array>, out=<array>): out is a real per-block input that takes part in chunk unification
        b = leaf_values(tuple(p["shape"]), p["dtype"], "perm", p["seed"] + 1)
        o = leaf_values(tuple(p["shape"]), p["dtype"], "perm", p["seed"] + 2)
        w = (leaf_values(tuple(p["shape"]), "i8", "perm", p["seed"] + 3) % 3) != 0
        o_da = da.from_array(o.copy(), chunks=tuple(tuple(c) for c in p["chunks2"]))
        w_da = da.from_array(w, chunks=tuple(tuple(c) for c in p["chunks"]))
        da.add(src, da.from_array(b, chunks=tuple(tuple(c) for c in p["chunks"])), where=w_da, out=o_da)
        xv = o.copy()
        np.add(a, b, where=w, out=xv)
        x = o_da
    elif pos == "store_slice":
        # a slice absorbed into the read as a region, then the rechunk
        idx = tuple(slice(rng.randint(0, n // 2), rng.randint((n + 1) // 2, n)) for n in a.shape)
        x, xv = src[idx], a[idx]
        if 0 in xv.shape:
            x, xv = src, a
    elif pos == "transpose":
        axes = list(range(a.ndim))
        rng.shuffle(axes)
        x, xv = src.transpose(axes), a.transpose(axes)
    elif pos == "concatenate":
        ax = rng.randrange(a.ndim)
        b = leaf_values(tuple(p["shape"]), p["dtype"], "perm", p["seed"] + 1)
        x, xv = da.concatenate([src, da.from_array(b, chunks=tuple(tuple(c) for c in p["chunks2"]))], axis=ax), np.concatenate([a, b], axis=ax)
    elif pos == "expand_dims":
        ax = rng.randint(0, a.ndim)
        x, xv = da.expand_dims(src, ax), np.expand_dims(a, ax)
    elif pos == "slice_below":
        idx = tuple(slice(rng.randint(0, n // 2), rng.randint((n + 1) // 2, n)) if rng.random() < 0.7 else rng.randrange(n) for n in a.shape)
        x, xv = src[idx], a[idx]
        if xv.ndim == 0:
            x, xv = src, a
    elif pos == "slice_above":
        x, xv = src, a
        post = "slice"
    elif pos == "rechunk_rechunk":
        first = rng.randint(1, max(1, max(a.shape)))
        x, xv = src.rechunk(first, balance=rng.random() < 0.4), a
    elif pos == "reduction_above":
        x, xv = src, a
        post = "sum"
    elif pos == "shared":
        x, xv = src, a
        post = "shared"
    elif pos == "unknown_axis":
        mask = (np.arange(a.shape[0]) % 3) != 1
        x, xv = src[da.from_array(mask, chunks=max(1, len(mask) // 2))], a[mask]
    else:
        raise ValueError(pos)
    shape = xv.shape
    kind = p["kind"]
    if pos == "unknown_axis":
        # only the known axes may be rechunked
        r2 = random.Random(p["rseed"])
        spec = {"dict": {str(ax): r2.randint(1, max(1, shape[ax])) for ax in range(1, xv.ndim)}}
        kw = {}
    else:
        spec, kw = gen_spec(random.Random(p["rseed"]), shape, x.chunks, kind)
    return x, xv, spec, kw, post, store


def apply_rechunk(x, spec, kw, da):
    kws = {k: v for k, v in kw.items() if k != "config_chunk_size"}
    s = dec_spec(spec)
    if "config_chunk_size" in kw:
        with dask.config.set({"array.chunk-size": kw["config_chunk_size"]}):
            return x.rechunk(s, **kws)
    return x.rechunk(s, **kws)


def is_nan(c):
    return isinstance(c, float) and c != c


def check_case(p, ctx):
    import dask_array as da

    problems = []
    rng = random.Random(p["rseed"])
    try:
        x, xv, spec, kw, post, store = build(p, da, rng)
    except Exception as e:
        ctx.tab("build_refused", f"{p['pos']}:{type(e).__name__}")
        return problems, False
    label = f"{p['pos']}|{p['kind']}"
    try:
        y = apply_rechunk(x, spec, kw, da)
    except Exception as e:
        ctx.tab("spec_refused", f"{p['kind']}:{type(e).__name__}:{msg_key(e)}")
        return problems, False
    ctx.count("rechunks_built")
    shape = xv.shape
    # (1) advertised chunks
    exp, explicit = expected_chunks(spec, kw, shape, x.chunks)
    ych = y.chunks
    for ax in range(len(shape)):
        got = tuple(ych[ax])
        if any(is_nan(c) for c in got):
            if not any(is_nan(c) for c in x.chunks[ax]) or len(got) != len(x.chunks[ax]):
                problems.append(("unknown_axis_changed", f"{label}: axis {ax} with unknown sizes changed from {x.chunks[ax]} to {got}", "chunks:unknown_axis_changed"))
            continue
        if sum(got) != shape[ax] or any((c < 0) for c in got) or len(got) == 0:
            problems.append(("not_a_partition", f"{label}: axis {ax} chunks {got} do not partition {shape[ax]} (spec {spec} {kw})", f"chunks:not_a_partition:{p['kind']}"))
            continue
        if explicit[ax] and exp[ax] is not None and got != tuple(exp[ax]):
            problems.append(("chunks_differ_from_spec", f"{label}: axis {ax} has chunks {got}, the spec {spec} {kw} normalizes to {exp[ax]} (x.chunks {x.chunks[ax]})", f"chunks:differ_from_spec:{p['kind']}"))
    # byte limits for auto / bytes / block_size_limit
    limit = None
    if p["kind"] == "bytes" and isinstance(spec, str):
        limit = parse_bytes(spec)
    elif "block_size_limit" in kw:
        limit = kw["block_size_limit"]
    elif "config_chunk_size" in kw:
        limit = parse_bytes(kw["config_chunk_size"])
    if limit is not None and not problems and not any(is_nan(c) for d in ych for c in d):
        item = np.dtype(y.dtype).itemsize
        largest = item * math.prod(max(d) if d else 0 for d in ych)
        tol = dask.config.get("array.chunk-size-tolerance", 1.25)
        fixed = item
        s = dec_spec(spec)
        for ax in range(len(shape)):
            is_auto = isinstance(s, str) or (isinstance(s, tuple) and isinstance(s[ax], str))
            fixed *= 1 if is_auto else (max(ych[ax]) if ych[ax] else 1)
        bound = max(limit * tol, fixed)
        ctx.mx("max_block_over_limit_ratio", largest / max(1, limit))
        if largest > bound + 1e-9:
            problems.append(("block_over_limit", f"{label}: largest block {largest} B exceeds the limit {limit} B (x tolerance {tol}; fixed axes account for {fixed} B): chunks {ych}", f"chunks:over_limit:{p['kind']}"))
    # (1b) metamorphic: an explicit uniform spec gives the same chunks whatever the source chunking (balance included)
    if p["kind"] in ("balance", "int") and p["pos"] in ("source", "store") and not problems:
        try:
            x2 = da.from_array(np.asarray(xv), chunks=tuple(tuple(c) for c in p["chunks2"]))
            y2 = apply_rechunk(x2, spec, kw, da)
            ctx.count("metamorphic_pairs")
            if y2.chunks != y.chunks:
                problems.append(("chunks_depend_on_source_chunking", f"{label}: rechunk({spec}, {kw}) gives {y.chunks} from {x.chunks} but {y2.chunks} from {x2.chunks}", f"chunks:depend_on_source:{p['kind']}"))
        except Exception:
            pass
    if problems:
        return problems, True
    # (2) the program around the rechunk
    out, ov = y, xv
    if post == "slice":
        idx = tuple(slice(rng.randint(0, n // 2), rng.randint((n + 1) // 2, n)) for n in shape)
        out, ov = y[idx], xv[idx]
    elif post == "sum":
        ax = rng.randrange(len(shape))
        out, ov = y.sum(axis=ax), xv.sum(axis=ax)
    elif post == "shared":
        out, ov = y + y[..., ::-1] * 2, xv + xv[..., ::-1] * 2
    # (3) per-block shapes of y itself and values, optimized and raw graph
    for target, tv, what in ((y, xv, "rechunked"), (out, ov, "program")):
        if target is y and out is y and what == "program":
            continue
        adv = target.chunks
        for optimize in (True, False):
            tag = "opt" if optimize else "raw"
            try:
                yy, dsk, keys = graph_of(target, optimize)
                run = sched.execute(dsk, order="random", rng=random.Random(1), check_mutation=False)
            except Exception as e:
                problems.append(("graph_or_execute_raises", f"{label} [{what},{tag}]: {short_tb(e)}", f"{what}:raise:{type(e).__name__}:{exc_site(e)}:{msg_key(e)}"))
                continue
            for k in flatten(keys):
                ctx.count("blocks_inspected")
                v = run.values.get(k)
                want = block_shape(adv, k[1:])
                if v is None or not hasattr(v, "shape"):
                    problems.append(("missing_block", f"{label} [{what},{tag}]: block {k[1:]} missing", f"{what}:missing_block"))
                    break
                if any(not is_nan(w) and int(w) != int(g_) for w, g_ in zip(want, v.shape)) or len(want) != len(v.shape):
                    problems.append(("block_shape", f"{label} [{what},{tag}]: block {k[1:]} has shape {v.shape}, advertised {want} (chunks {adv})", f"{what}:block_shape:{tag}"))
                    break
            try:
                val = sched.assemble(keys, run.values)
                why = same(tv, val, 1 if np.asarray(tv).dtype.kind in "fc" and what == "program" and post == "sum" else 0, float(np.abs(np.asarray(tv, dtype="f8")).max()) if np.size(tv) else 1.0)
                if why:
                    problems.append(("values_changed", f"{label} [{what},{tag}]: {why}", f"{what}:values:{tag}"))
            except Exception as e:
                problems.append(("assemble_raises", f"{label} [{what},{tag}]: {short_tb(e)}", f"{what}:assemble:{type(e).__name__}"))
    # (4) every fired rewrite whose subject is a Rechunk keeps chunks (values are covered by (3) and by C02)
    try:
        R.REC.start()
        out.expr.optimize()
        recs = R.REC.stop()
    except Exception as e:
        R.REC.stop()
        recs = []
    from dask_array._rechunk import Rechunk

    for r in recs:
        if isinstance(r.before, Rechunk):
            ctx.count("rechunk_rewrites_checked")
            ctx.tab("rechunk_rewrites", r.site)
            try:
                bc, ac = r.before.chunks, r.after.chunks
            except Exception:
                continue
            if tuple(map(tuple, bc)) != tuple(map(tuple, ac)) and not any(is_nan(c) for d in bc for c in d):
                problems.append(("rewrite_changes_rechunk_chunks", f"{label}: {r.site} turned chunks {bc} into {ac}", f"rewrite:{r.rule}:chunks"))
    # (5) reads of a gridded store stay in bounds
    if store is not None:
        bad = store.problems()
        if bad:
            problems.append(("store_read_out_of_bounds", f"{label}: {bad[0].problem} (request {rec.enc(bad[0].index)})", "store:read_problem"))
    changed = tuple(map(tuple, y.chunks)) != tuple(map(tuple, x.chunks))
    multi = any(len(c) > 1 for c in x.chunks) or any(len(c) > 1 for c in y.chunks)
    return problems, changed and multi


def run_one(rng, ctx):
    p = gen_case(rng, ctx.tier == "thorough")
    ctx.current_case = p
    problems, nontrivial = check_case(p, ctx)
    ctx.count("cases_checked")
    ctx.seen((p["pos"], p["kind"], p["source"]), nontrivial)
    ctx.tab("positions_x_specs", f"{p['pos']}|{p['kind']}")
    if len(ctx.samples) < 2 and nontrivial:
        ctx.sample(p)
    seen = set()
    for kind, msg, mech in problems:
        if mech in seen:
            continue
        seen.add(mech)
        ctx.violation(kind, f"{msg}\n  case: {p}", case=p, mech=mech)


def replay_case(case, ctx):
    problems, _ = check_case(case, ctx)
    seen = set()
    for kind, msg, mech in problems:
        if mech not in seen:
            seen.add(mech)
            ctx.violation(kind, msg, case=case, mech=mech)


def finalize(ctx):
    if ctx.counters.get("blocks_inspected", 0) == 0:
        ctx.inconc("no block was inspected")
    if ctx.counters.get("rechunk_rewrites_checked", 0) == 0:
        ctx.inconc("no rewrite of a Rechunk was observed")


RULE += (
    ' Positions also include ufunc(where=<array>, out=<array>) results and slices of chunked stores (regions) under every spec kind.'
)
