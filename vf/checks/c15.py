"""C15 - rechunk plans are valid and respect the block-size budget (contracts on the real planner)."""

from __future__ import annotations

import importlib
import itertools
import random

import dask
import numpy as np

from vf import contracts as K
from vf.checks.c13 import compositions
from vf.common import exc_site, now, short_tb

PROPERTY = "C15"
WORKERS = {"quick": 16, "thorough": 16}
TIME = {"quick": 60, "thorough": 240}
BOX = {"quick": 7, "thorough": 9}
EXHAUSTIVE = "1-D: every ordered pair of chunkings (compositions) of every n <= N (quick N=7, thorough N=9) through old_to_new and plan_rechunk under degree-limit in {2,3,100}"
TECHNIQUE = "runtime contracts (icontract postconditions with arithmetic references) on plan_rechunk, old_to_new, merge_to_number, divide_to_width, find_merge_rechunk, find_split_rechunk, _bound_degree; exhaustive 1-D driver + random n-D driver + real rechunks"
RULE = (
    "postconditions on the real planner functions: plan is a non-empty list of chunkings of the same shape ending in the target; no step's "
    "largest block exceeds max(limit/itemsize, largest old, largest new); the old->new crosswalk tiles every new block exactly once with "
    "contiguous in-bounds pieces; merge/divide helpers preserve sums and bounds. Driver: " + EXHAUSTIVE + "; random 2-D..4-D chunkings "
    "(extents <= 12 quick / 64 thorough) x itemsize {1,4,8,16} x threshold {1,2,4,32} x limit {1B..1MiB} x degree-limit {2,3,4,10,100}; "
    "zero-size chunks and unknown sizes on unchanged axes; plus real x.rechunk(...).compute(). distinct = (old,new,config) tuples; "
    "non-trivial = old != new and at least one side has >= 2 blocks"
)
ASSUMPTIONS = ["block budget as stated by the property: max(limit/itemsize, largest old block, largest new block), in elements"]


def report(ctx):
    for v in K.flush_to(ctx):
        ctx.violation(v["mech"].split(":")[0], v["msg"], case={"fn": v["fn"], "call": v["call"]}, mech=v["mech"])


def rand_comp(r, n, zero=False):
    if n == 0:
        return (0,)
    out = []
    left = n
    style = r.random()
    if style < 0.15:
        return (n,)
    if style < 0.3:
        return (1,) * n
    if style < 0.5:
        c = r.randint(1, n)
        q, rem = divmod(n, c)
        return (c,) * q + ((rem,) if rem else ())
    while left > 0:
        c = r.randint(1, max(1, min(left, max(2, n // 2))))
        out.append(c)
        left -= c
    if zero and r.random() < 0.05:
        out.insert(r.randrange(len(out) + 1), 0)
    return tuple(out)


def run_all(ctx):
    K.install("rechunk")
    R = importlib.import_module("dask_array._rechunk")
    import dask_array as da

    N = BOX[ctx.tier]
    i = 0
    for n in range(1, N + 1):
        comps = list(compositions(n))
        for old in comps:
            i += 1
            if i % ctx.nworkers != ctx.index:
                continue
            for new in comps:
                R.old_to_new((old,), (new,))
                for dl in (2, 3, 100):
                    with dask.config.set({"array.rechunk.degree-limit": dl}):
                        R.plan_rechunk((old,), (new,), 8)
                    # with a 1-byte limit the budget is max(largest old, largest new) exactly
                    with dask.config.set({"array.rechunk.degree-limit": dl, "array.chunk-size": "1B"}):
                        R.plan_rechunk((old,), (new,), 8)
                ctx.evaluations += 1
                if old != new:
                    ctx.seen(("1d", old, new))
        if now() > ctx.deadline:
            ctx.inconc("exhaustive box not completed within the time cap")
            report(ctx)
            return
    report(ctx)
    ctx.count("exhaustive_box_completed")
    r = random.Random(f"{ctx.seed}:{ctx.index}")
    ext = 12 if ctx.tier == "quick" else 64
    nrand = 2500 if ctx.tier == "quick" else 150000
    for it in range(nrand):
        if it % 64 == 0 and now() > ctx.deadline:
            ctx.count("random_phase_stopped_by_time_cap")
            break
        nd = r.choice([2, 2, 2, 3, 3, 4])
        shape = tuple(r.randint(1, ext) for _ in range(nd))
        zero = r.random() < 0.1
        old = tuple(rand_comp(r, s, zero) for s in shape)
        new = tuple(rand_comp(r, s, zero) for s in shape)
        if r.random() < 0.08:
            ax = r.randrange(nd)
            unk = tuple(float("nan") for _ in old[ax])
            old = old[:ax] + (unk,) + old[ax + 1 :]
            new = new[:ax] + (unk,) + new[ax + 1 :]
        itemsize = r.choice([1, 4, 8, 16])
        cfg = {
            "array.rechunk.threshold": r.choice([1, 2, 4, 32]),
            "array.chunk-size": r.choice(["1B", "16B", "64B", "256B", "1KiB", "64KiB", "1MiB"]),
            "array.rechunk.degree-limit": r.choice([2, 3, 4, 10, 100]),
        }
        if r.random() < 0.15:
            # the same pair was planned earlier in this process under a more generous configuration: the plan made
            # now must still respect the limits in force now (the contract on plan_rechunk reads the current config)
            with dask.config.set({"array.rechunk.threshold": cfg["array.rechunk.threshold"], "array.chunk-size": "1MiB", "array.rechunk.degree-limit": cfg["array.rechunk.degree-limit"]}):
                try:
                    R.plan_rechunk(old, new, itemsize)
                    ctx.count("pairs_planned_earlier_under_another_config")
                except Exception:
                    pass
        with dask.config.set(cfg):
            try:
                plan = R.plan_rechunk(old, new, itemsize)
                ctx.tab("plan_len", min(len(plan), 6))
            except Exception as e:
                ctx.tab("plan_rechunk_raised", type(e).__name__)
                known = all(not (isinstance(c, float) and c != c) for dim in old + new for c in dim)
                if known:
                    # "for every pair of old and new chunkings of the same shape the plan is a finite list ... ending in the new chunking"
                    ctx.violation("plan_raises", f"plan_rechunk({old}, {new}, itemsize={itemsize}) under {cfg} raised {short_tb(e, 6)}", case={"old": K.enc(old), "new": K.enc(new), "itemsize": itemsize, "config": cfg, "plan_case": True}, mech=f"plan_raises:{type(e).__name__}:{exc_site(e)}")
            try:
                R.old_to_new(old, new)
                if r.random() < 0.1:
                    list(R.intersect_chunks(old, new))
            except Exception as e:
                ctx.tab("old_to_new_raised", type(e).__name__)
        c = rand_comp(r, r.randint(1, 60))
        R.merge_to_number(c, r.randint(1, len(c) + 1))
        R.divide_to_width(c, r.randint(1, 10))
        ctx.evaluations += 1
        ctx.seen(("nd", old, new, itemsize, tuple(cfg.values())), old != new and (max(map(len, old)) > 1 or max(map(len, new)) > 1))
        if len(ctx.samples) < 2 and it > 5:
            ctx.sample({"old": K.enc(old), "new": K.enc(new), "itemsize": itemsize, "config": cfg})
    report(ctx)
    # real rechunks with the contracts on
    nprog = 150 if ctx.tier == "quick" else 4000
    for it in range(nprog):
        if it % 16 == 0 and now() > ctx.deadline:
            break
        nd = r.choice([1, 2, 2, 3])
        shape = tuple(r.randint(1, 10) for _ in range(nd))
        a = np.arange(int(np.prod(shape))).reshape(shape)
        cfg = {"array.rechunk.threshold": r.choice([1, 4]), "array.chunk-size": r.choice(["16B", "128B", "128MiB"]), "array.rechunk.degree-limit": r.choice([2, 3, 100])}
        with dask.config.set(cfg):
            try:
                x = da.from_array(a, chunks=tuple(rand_comp(r, s) for s in shape))
                y = (x + 1).rechunk(tuple(rand_comp(r, s) for s in shape))
                got = y.compute()
                ctx.count("real_rechunks")
                if not np.array_equal(got, a + 1):
                    ctx.violation("rechunk_values", f"rechunk changed values: {x.chunks}->{y.chunks} under {cfg}", case={"fn": "real", "call": [K.enc(x.chunks), K.enc(y.chunks), cfg]}, mech="real_rechunk:values")
            except Exception as e:
                ctx.tab("real_rechunk_raised", type(e).__name__)
    report(ctx)


def replay_case(case, ctx):
    K.install("rechunk")
    R = importlib.import_module("dask_array._rechunk")
    if case.get("plan_case"):
        with dask.config.set(case["config"]):
            try:
                R.plan_rechunk(K.dec(case["old"]), K.dec(case["new"]), case["itemsize"])
            except Exception as e:
                ctx.violation("plan_raises", f"plan_rechunk raised {short_tb(e, 6)}", case=case, mech=f"plan_raises:{type(e).__name__}:{exc_site(e)}")
        report(ctx)
        return
    fn, call = case["fn"], case["call"]
    if fn == "plan_rechunk":
        old, new = K.dec(call[0]), K.dec(call[1])
        cfg = {k: v for k, v in call[5].items() if v is not None}
        with dask.config.set(cfg):
            R.plan_rechunk(old, new, call[2], call[3], call[4])
    elif fn in ("old_to_new",):
        R.old_to_new(K.dec(call[0]), K.dec(call[1]))
    elif fn in ("merge_to_number", "divide_to_width"):
        getattr(R, fn)(tuple(call[0]), call[1])
    elif fn in ("find_merge_rechunk", "find_split_rechunk", "_bound_degree"):
        getattr(R, fn)(K.dec(call[0]), K.dec(call[1]), call[2])
    report(ctx)


def finalize(ctx):
    for fn in ("plan_rechunk", "old_to_new", "merge_to_number", "divide_to_width", "_bound_degree"):
        if ctx.counters.get(f"contract_evals:{fn}", 0) == 0:
            ctx.inconc(f"contract on {fn} was never evaluated")


RULE += (
    ' A planner that raises over known chunkings is a violation; 15 % of pairs are first planned under a 1MiB limit in the same process.'
)
