"""C03 - advertised shape, dtype and chunks are what the graph produces (per-block monitor)."""

from __future__ import annotations

import random

import dask
import numpy as np
from dask.core import flatten

from vf import sched
from vf.common import exc_site, short_tb
from vf.gen import Prog, ReplayRefused
from vf.util import block_shape, closure_has_zero, graph_of, max_blocks, shapes_agree, tally_ops, tally_prog

PROPERTY = "C03"
WORKERS = {"quick": 16, "thorough": 16}
CASES = {"quick": 600, "thorough": 3600}
TIME = {"quick": 50, "thorough": 240}
RULE = (
    "random programs biased to layout-changing rewrites (sliding-window reductions, rechunk/slice/concatenate, reshape, "
    "map_blocks); metadata (shape, chunks, dtype) is captured before any optimization, then every key of __dask_keys__() "
    "is fetched individually by the instrumented scheduler from the optimized AND the unoptimized graph and each block's "
    "shape/dtype is compared with the advertised chunk grid; the assembled result is compared with .shape/.dtype. "
    "distinct = op sequences; non-trivial = >=2 blocks in the output, >=2 ops, non-empty"
)
ASSUMPTIONS = [
    "empty blocks whose dtype differs from .dtype are logged, not flagged (the property speaks of the computed result)",
    "axes with unknown (NaN) chunk sizes: only block counts are compared",
]
WEIGHTS = {"#window": 2.5, "#rechunk": 2.0, "#reshape": 2.0, "#index": 1.5, "#map_blocks": 2.0, "#combine": 1.5, "#linalg": 0.5}


def check_blocks(x, adv, ctx, optimize):
    """Return list of (kind, msg, mech) problems."""
    shape, chunks, dtype = adv
    tag = "opt" if optimize else "raw"
    try:
        y, dsk, keys = graph_of(x, optimize)
    except Exception as e:
        return [("graph_raises", f"[{tag}] {short_tb(e)}", f"graph_raises:{type(e).__name__}:{exc_site(e)}")]
    flat = list(flatten(keys))
    nb = tuple(len(c) for c in chunks)
    want = int(np.prod(nb)) if nb else 1
    out = []
    if len(flat) != want:
        out.append(("block_count", f"[{tag}] {len(flat)} keys for numblocks {nb}", "block_count"))
        return out
    try:
        run = sched.execute(dsk, order="random", rng=random.Random(1), check_mutation=False)
    except sched.GraphProblem as e:
        return [("graph_problem", f"[{tag}] {e}", f"graph_problem:{e.kind}")]
    except Exception as e:
        return [("execute_raises", f"[{tag}] {short_tb(e)}", f"execute_raises:{type(e).__name__}:{exc_site(e)}")]
    ctx.count("tasks_executed", run.ntasks)
    for k in flat:
        if k not in run.values:
            out.append(("missing_block", f"[{tag}] key {k!r} not produced", "missing_block"))
            continue
        v = run.values[k]
        idx = k[1:]
        exp = block_shape(chunks, idx)
        ctx.count("blocks_inspected")
        if not hasattr(v, "shape"):
            out.append(("block_not_array", f"[{tag}] key {k!r} -> {type(v).__name__}", "block_not_array"))
            continue
        if not shapes_agree(exp, v.shape):
            out.append(("block_shape", f"[{tag}] block {idx} has shape {v.shape}, advertised {exp} (chunks={chunks})", f"block_shape:{tag}"))
        elif v.dtype != dtype:
            if v.size:
                out.append(("block_dtype", f"[{tag}] block {idx} dtype {v.dtype}, advertised {dtype}", f"block_dtype:{tag}"))
            else:
                ctx.count("empty_block_dtype_differs")
        if len(out) > 3:
            break
    if optimize:
        try:
            lowered = y._lowered_expr
            inner = lowered.operands[0] if type(lowered).__name__ == "RootAlias" else lowered
            ctx.tab("root_kept_name", type(lowered).__name__ != "RootAlias")
            if type(inner).__name__ == "Rechunk" and type(lowered).__name__ == "RootAlias":
                ctx.count("bridge_or_rechunk_root")
        except Exception:
            pass
    return out


def check_one(g, v, ctx):
    x = v.da
    adv = (x.shape, x.chunks, x.dtype)
    z = "|zero_size" if closure_has_zero(g, v) else ""
    step = g.steps[v.id]
    problems = []
    for optimize in (True, False):
        for kind, msg, mech in check_blocks(x, adv, ctx, optimize):
            problems.append((kind, msg, f"{mech}:{step['op']}{z}"))
    # assembled result
    try:
        res = x.compute()
        if not shapes_agree(adv[0], np.shape(res)):
            problems.append(("result_shape", f"computed shape {np.shape(res)} != advertised {adv[0]}", f"result_shape:{step['op']}{z}"))
        elif np.size(res) and np.asarray(res).dtype != adv[2] and not isinstance(res, np.ma.MaskedArray):
            problems.append(("result_dtype", f"computed dtype {np.asarray(res).dtype} != advertised {adv[2]}", f"result_dtype:{step['op']}{z}"))
    except Exception as e:
        problems.append(("compute_raises", short_tb(e), f"compute_raises:{type(e).__name__}:{exc_site(e)}{z}"))
    return problems


def run_one(rng, ctx):
    big = ctx.tier == "thorough"
    g = Prog(rng, max_extent=rng.choice([7, 9, 12, 24]) if big else 7, max_size=20000 if big else 4000, weights=WEIGHTS)
    g.grow(rng.randint(1, 10 if big else 6))
    tally_prog(g, ctx)
    non_leaf = [v for v, s in zip(g.vars, g.steps) if s["in"]]
    if not non_leaf:
        return
    v = non_leaf[-1]
    case = {"steps": g.closure(v.id)}
    ctx.current_case = case
    problems = check_one(g, v, ctx)
    ctx.count("programs_checked")
    nops = sum(1 for s in case["steps"] if s["in"])
    try:
        nbl = int(np.prod(v.da.numblocks))
    except Exception:
        nbl = 1
    ctx.seen(g.signature(v.id), nops >= 2 and nbl >= 2 and v.np.size > 0)
    tally_ops(case["steps"], ctx)
    if len(ctx.samples) < 2 and nbl >= 2:
        ctx.sample({"steps": case["steps"], "advertised_chunks": [list(map(float, c)) for c in v.da.chunks]})
    report(problems, case, ctx)


RAISES = ("graph_raises", "execute_raises", "compute_raises")


def report(problems, case, ctx):
    """A program that raises has no graph/blocks to judge: that is C01/C08's event, tallied here."""
    own = [p for p in problems if p[0] not in RAISES]
    for kind, msg, mech in problems:
        if kind in RAISES:
            ctx.count("skipped_program_raises")
            ctx.tab("raises_left_to_C01_C08", mech)
    for kind, msg, mech in own[:2]:
        ctx.violation(kind, f"{msg}\n  program: {case['steps']}", case=case, mech=mech)


def replay_case(case, ctx):
    try:
        g = Prog.replay(case["steps"])
    except ReplayRefused as e:
        ctx.violation("build_raises_on_replay", str(e), case=case, mech="replay_refused")
        return
    report(check_one(g, g.vars[-1], ctx), case, ctx)


def finalize(ctx):
    if ctx.counters.get("blocks_inspected", 0) == 0:
        ctx.inconc("no block was inspected")
    if ctx.counters.get("skipped_program_raises", 0) > 0.3 * max(1, ctx.counters.get("programs_checked", 0)):
        ctx.inconc("more than 30% of programs raised before their blocks could be inspected")
