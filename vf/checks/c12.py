"""C12 - indexing follows NumPy semantics for every supported index (differential monitor)."""

from __future__ import annotations

import itertools
import random
from numbers import Integral

import numpy as np

from vf import contracts as K
from vf.common import exc_site, now, short_tb
from vf.gen import dec_index, enc_index, leaf_values, rand_chunks, rand_composition
from vf.oracles import same

PROPERTY = "C12"
WORKERS = {"quick": 16, "thorough": 16}
CASES = {"quick": 5000, "thorough": 30000}
TIME = {"quick": 50, "thorough": 240}
TECHNIQUE = "runtime differential monitor: NumPy indexing as oracle over generated index tuples; slice-helper contracts stay attached during the run"
RULE = (
    "index tuples over shapes ndim 1-4, extents 0-12, arbitrary chunkings: ints (incl. out of range), slices with start/stop in "
    "[-n-2,n+2] U {None} and steps {None,+-1,+-2,+-3}, None, Ellipsis, int lists (negative, repeated, empty, out of range), NumPy bool "
    "masks (right/wrong length, full-shape), dask bool masks, dask int arrays (0-d/1-d), chained indexing, .vindex (pointwise reference), "
    ".blocks (concatenation reference), indexing of unknown-chunk arrays. Violation: dask returns data != NumPy's, or returns data where "
    "NumPy raises IndexError. A raise by dask where NumPy succeeds = unsupported/refused (tallied). distinct = (index kind signature, "
    "ndim, nblocks class); non-trivial = array has >= 2 blocks and NumPy result non-empty. Thorough adds the exhaustive 1-D box n<=6 x all "
    "chunkings x all slices/ints in range"
)
ASSUMPTIONS = ["NumPy indexing is the reference; for .vindex a pointwise reference (ints/slices first, broadcast index arrays, subspace first)"]


def setup(ctx):
    K.install("slicing")
    if ctx.tier == "thorough":
        import time

        from vf.checks.c12 import exhaustive_1d

        ctx.nworkers = WORKERS["thorough"]
        ctx.deadline = time.monotonic() + 400
        exhaustive_1d(ctx)


def kind_of(e):
    if e is None:
        return "None"
    if e is Ellipsis:
        return "..."
    if isinstance(e, slice):
        st = e.step
        return "slice" if st in (None, 1) else ("slice-neg" if st < 0 else "slice-step")
    if isinstance(e, Integral):
        return "int"
    a = np.asarray(e)
    return "boolmask" if a.dtype == bool else "intlist"


class IndexerModified(Exception):
    pass


_COUNTS = {}


def ctx_count(k):
    _COUNTS[k] = _COUNTS.get(k, 0) + 1


def nonadjacent_int_list(idx):
    """NumPy treats ints and a list together as advanced indices; when they are separated by a
    slice/None/Ellipsis the broadcast dimension moves to the front. dask keeps it in place."""
    adv = [i for i, e in enumerate(idx) if isinstance(e, Integral) or (not isinstance(e, slice) and e is not None and e is not Ellipsis)]
    has_list = any(not isinstance(idx[i], Integral) for i in adv)
    has_int = any(isinstance(idx[i], Integral) for i in adv)
    if not (has_list and has_int):
        return False
    return adv[-1] - adv[0] + 1 != len(adv)


def make_array(rng, max_ndim=4, max_ext=9):
    nd = rng.choice([1, 1, 2, 2, 3, 3, 4][: 7 if max_ndim >= 4 else 6])
    shape = tuple(rng.choice([0, 1, 2, 3, 4, 5, 6, 7, max_ext, max_ext]) if rng.random() < 0.9 else rng.randint(0, max_ext) for _ in range(nd))
    while int(np.prod(shape)) > 6000:
        shape = tuple(max(1, s // 2) for s in shape)
    dtype = rng.choice(["i8", "f8", "i4"])
    a = leaf_values(shape, dtype, "perm", rng.randrange(10**6))
    chunks = rand_chunks(rng, shape)
    return a, chunks


class G:  # minimal adaptor so vf.gen's index generators can be reused
    def __init__(self, rng):
        self.rng = rng


def gen_case(rng, tier):
    from vf.gen import rand_index

    a, chunks = make_array(rng, max_ext=9 if tier == "quick" else 12)
    kind = rng.choices(["basic", "basic", "basic", "chain", "npmask_full", "daskmask", "daskint", "vindex", "blocks", "unknown"], [10, 10, 10, 5, 2, 3, 3, 4, 4, 3])[0]
    if kind == "basic" and len(a.shape) >= 2 and min(a.shape[:2]) >= 1 and a.shape[0] != a.shape[1] and rng.random() < 0.08:
        kind = "shared_index"
    case = {"kind": kind, "shape": list(a.shape), "dtype": str(a.dtype), "chunks": [list(c) for c in chunks], "seed": None}
    g = G(rng)
    if kind == "shared_index":
        m = min(a.shape[:2])
        case["ind"] = [rng.randrange(-m, m) for _ in range(rng.randint(1, 5))]
        return case, a, chunks
    if kind == "basic":
        case["as_array"] = rng.random() < 0.3
    shape = a.shape
    if kind in ("basic", "chain"):
        idx = rand_index(g, shape, fancy=True, newaxis=True, wild=True)
        if rng.random() < 0.15 and shape:
            # out-of-range int or list entry
            ax = rng.randrange(len(shape))
            bad = rng.choice([shape[ax], shape[ax] + 1, -shape[ax] - 1])
            lst = list(idx[: ax + 1]) if len(idx) > ax else list(idx) + [slice(None)] * (ax + 1 - len(idx))
            if all(e is not None and e is not Ellipsis for e in lst):
                lst[ax] = bad if rng.random() < 0.6 else [0, bad] if shape[ax] else [bad]
                idx = tuple(lst)
        if rng.random() < 0.08 and shape:
            ax = rng.randrange(len(shape))
            n = shape[ax] + rng.choice([-1, 1])
            if n >= 0:
                m = np.array([rng.random() < 0.5 for _ in range(n)], dtype=bool)
                idx = tuple(slice(None) for _ in range(ax)) + (m,)
        case["idx"] = enc_index(idx)
        if kind == "chain":
            case["idx2_seed"] = rng.randrange(10**6)
    elif kind == "npmask_full":
        case["mask_seed"] = rng.randrange(10**6)
        case["wrong_shape"] = rng.random() < 0.15
    elif kind == "daskmask":
        case["thr"] = rng.randint(-3, 6)
        case["axis1d"] = rng.random() < 0.4
        case["mask_chunks_seed"] = rng.randrange(10**6)
        case["mask_rechunked"] = rng.random() < 0.5  # a full-shape dask mask whose chunking differs from x's
    elif kind == "daskint":
        case["zero_d"] = rng.random() < 0.3
        case["axis"] = rng.randrange(len(shape)) if shape else 0
        n = shape[case["axis"]] if shape else 0
        m = rng.randint(0, 6)
        case["ind"] = [rng.randrange(-n, n) for _ in range(m)] if n else []
        if case["ind"] and rng.random() < 0.1:
            case["ind"][rng.randrange(len(case["ind"]))] = rng.choice([n, n + 2, -n - 1])
        case["ind_chunks"] = list(rand_composition(rng, len(case["ind"]))) if case["ind"] else [0]
        case["second"] = None
        if case["zero_d"] and len(shape) >= 2 and case["axis"] + 1 < len(shape) and shape[case["axis"] + 1] > 0 and rng.random() < 0.6:
            # a second dask integer indexer (0-d or 1-d) in the same index tuple
            n2 = shape[case["axis"] + 1]
            case["second"] = {"zero_d": rng.random() < 0.5, "ind": [rng.randrange(-n2, n2) for _ in range(rng.randint(1, 4))]}
    elif kind == "vindex" and rng.random() < 0.35:
        # 4-d / 5-d arrays with several point indexers on non-adjacent axes, the first axis sliced
        nd = rng.choice([4, 4, 5])
        shp = tuple(rng.randint(1, 4) for _ in range(nd))
        a = leaf_values(shp, rng.choice(["i8", "f8"]), "perm", rng.randrange(10**6))
        chunks = rand_chunks(rng, shp)
        shape = list(shp)
        case.update({"shape": list(shp), "dtype": str(a.dtype), "chunks": [list(c) for c in chunks]})
        npts = rng.randint(1, 4)
        pattern = rng.choice([[1, 3], [1, 3], [2, 4] if nd == 5 else [1, 3], [1, 2, 3][: rng.randint(2, 3)], [0, 2], [1, nd - 1]])
        idx = []
        for ax in range(nd):
            n = shp[ax]
            if ax in pattern:
                idx.append([rng.randrange(-n, n) for _ in range(npts)])
            elif rng.random() < 0.2:
                idx.append(rng.randrange(-n, n))
            else:
                idx.append(["s", None, None, None] if rng.random() < 0.7 else ["s", rng.choice([None, 0, 1]), None, rng.choice([None, 1, 2])])
        case["vidx"] = idx
    elif kind == "vindex":
        nd = len(shape)
        idx = []
        npts = rng.randint(1, 5)
        bshape = rng.choice([(npts,), (npts,), (2, npts), (npts, 1)])
        used = 0
        for ax in range(nd):
            n = shape[ax]
            r = rng.random()
            if r < 0.5 and n > 0:
                used += 1
                shp = bshape if rng.random() < 0.7 else (bshape[-1],)
                arr = np.array([rng.randrange(-n, n) for _ in range(int(np.prod(shp)))]).reshape(shp)
                if rng.random() < 0.05:
                    arr = arr.copy()
                    arr.flat[0] = n + 1
                idx.append(arr.tolist())
            elif r < 0.65 and n > 0:
                idx.append(rng.randrange(-n, n))
            else:
                idx.append(["s"] + [rng.choice([None, rng.randint(0, n)]), rng.choice([None, rng.randint(0, n)]), rng.choice([None, 1, 2])])
        case["vidx"] = idx
    elif kind == "blocks":
        idx = []
        for c in chunks[: rng.randint(0, len(chunks))]:
            nb = len(c)
            r = rng.random()
            if r < 0.35:
                idx.append(rng.randrange(-nb, nb))
            elif r < 0.8:
                idx.append(["s", rng.choice([None, rng.randint(-nb, nb)]), rng.choice([None, rng.randint(-nb, nb)]), rng.choice([None, None, 1, 2, -1])])
            else:
                idx.append(["l", [rng.randrange(-nb, nb) for _ in range(rng.randint(1, 3))]])
        case["bidx"] = idx
    elif kind == "unknown":
        case["thr"] = rng.randint(-2, 4)
        from vf.gen import rand_slice

        case["idx"] = enc_index((rand_slice(g, 5, True),) if rng.random() < 0.6 else (rng.randint(-3, 3),))
    return case, a, chunks


def build_array(case):
    import dask_array as da

    a = None
    return a


def evaluate(case, a, chunks):
    """Return (expected | ('raises', exc), got | ('raises', exc), idx_for_classifier)."""
    import dask_array as da

    x = da.from_array(a, chunks=chunks)
    kind = case["kind"]
    cls_idx = None

    def both(fn_np, fn_da):
        try:
            e = fn_np()
        except Exception as ex:
            e = ("raises", ex)
        try:
            r = fn_da()
            r = r.compute() if hasattr(r, "compute") else r
        except Exception as ex:
            r = ("raises", ex)
        return e, r

    if kind == "basic":
        idx = dec_index(case["idx"], as_array=bool(case.get("as_array")))
        cls_idx = idx
        keep = [(i, v.copy()) for i, v in enumerate(idx) if isinstance(v, np.ndarray)]
        e, r = both(lambda: a[idx], lambda: x[idx])
        for i, v0 in keep:
            ctx_count("indexer_arrays_audited")
            if not np.array_equal(idx[i], v0):
                r = ("raises", IndexerModified(f"the caller's index array (position {i}) was {v0.tolist()} and is {idx[i].tolist()} after x[idx]"))
    elif kind == "shared_index":
        # ONE index array (with negative entries) used on two axes of different length
        ind = np.array(case["ind"], dtype=np.intp)
        ind0 = ind.copy()
        cls_idx = (list(case["ind"]),)
        e, r = both(lambda: a[ind0][:, ind0], lambda: x[ind][:, ind])
        ctx_count("indexer_arrays_audited")
        if not np.array_equal(ind, ind0):
            r = ("raises", IndexerModified(f"the caller's index array was {ind0.tolist()} and is {ind.tolist()} after x[ind][:, ind]"))
    elif kind == "chain":
        from vf.gen import rand_index

        idx = dec_index(case["idx"])
        cls_idx = idx
        try:
            mid = a[idx]
        except Exception as ex:
            return ("raises", ex), _try(lambda: x[idx].compute()), idx
        idx2 = rand_index(G(random.Random(case["idx2_seed"])), mid.shape, fancy=True, newaxis=True, wild=True)
        case["idx2"] = enc_index(idx2)
        cls_idx = tuple(idx) + tuple(idx2) if not nonadjacent_int_list(idx) and not nonadjacent_int_list(idx2) else (1, slice(None), [0])
        e, r = both(lambda: a[idx][idx2], lambda: x[idx][idx2])
    elif kind == "npmask_full":
        rs = np.random.default_rng(case["mask_seed"])
        shp = a.shape if not case["wrong_shape"] else tuple(s + 1 for s in a.shape)
        m = rs.random(shp) < 0.5
        e, r = both(lambda: a[m], lambda: x[m])
    elif kind == "daskmask":
        mrng = random.Random(case["mask_chunks_seed"])
        if case["axis1d"] and a.ndim >= 1:
            m_np = (np.arange(a.shape[0]) % 3) != case["thr"] % 3
            m = da.from_array(m_np, chunks=(rand_composition(mrng, a.shape[0]),))
            e, r = both(lambda: a[m_np], lambda: x[m])
        elif case.get("mask_rechunked") and a.ndim >= 1:
            m_np = a > case["thr"]
            m = da.from_array(m_np, chunks=tuple(rand_composition(mrng, n) for n in a.shape))
            e, r = both(lambda: a[m_np], lambda: x[m])
        else:
            e, r = both(lambda: a[a > case["thr"]], lambda: x[x > case["thr"]])
    elif kind == "daskint":
        ax = case["axis"]
        if case["zero_d"]:
            n = a.shape[ax] if a.ndim else 0
            k = (case["ind"][0] if case["ind"] else 0)
            ki = da.from_array(np.array(k), chunks=())
            pre = (slice(None),) * ax
            sec = case.get("second")
            if sec:
                if sec["zero_d"]:
                    k2 = sec["ind"][0]
                    k2d = da.from_array(np.array(k2), chunks=())
                else:
                    k2 = np.array(sec["ind"], dtype=np.int64)
                    k2d = da.from_array(k2, chunks=max(1, len(sec["ind"]) // 2))
                e, r = both(lambda: a[pre + (k, k2)], lambda: x[pre + (ki, k2d)])
            else:
                e, r = both(lambda: a[pre + (k,)], lambda: x[pre + (ki,)])
        else:
            ind_np = np.array(case["ind"], dtype=np.int64)
            ind = da.from_array(ind_np, chunks=(tuple(case["ind_chunks"]),))
            pre = (slice(None),) * ax
            e, r = both(lambda: a[pre + (ind_np,)], lambda: x[pre + (ind,)])
    elif kind == "vindex":
        vidx = tuple(slice(*v[1:]) if isinstance(v, list) and v and v[0] == "s" else v for v in case["vidx"])
        e, r = both(lambda: vindex_ref(a, vidx), lambda: x.vindex[vidx])
    elif kind == "blocks":
        bidx = dec_index(case["bidx"])
        e, r = both(lambda: blocks_ref(a, chunks, bidx), lambda: x.blocks[bidx])
    elif kind == "unknown":
        idx = dec_index(case["idx"])
        e, r = both(lambda: a[a > case["thr"]][idx], lambda: x[x > case["thr"]][idx])
    return e, r, cls_idx


def _try(fn):
    try:
        return fn()
    except Exception as ex:
        return ("raises", ex)


def vindex_ref(a, vidx):
    nonf, red = [], []
    for ind in vidx:
        if isinstance(ind, Integral):
            nonf.append(ind)
        elif isinstance(ind, slice):
            nonf.append(ind)
            red.append(slice(None))
        else:
            nonf.append(slice(None))
            red.append(np.asarray(ind))
    a2 = a[tuple(nonf)]
    fancy_axes = [i for i, r in enumerate(red) if not isinstance(r, slice)]
    if not fancy_axes:
        return a2
    arrs = []
    for i in fancy_axes:
        ind = red[i]
        n = a2.shape[i]
        if ((ind >= n) | (ind < -n)).any():
            raise IndexError("out of bounds")
        arrs.append(ind % n if n else ind)
    B = np.broadcast_arrays(*arrs)
    moved = np.moveaxis(a2, fancy_axes, list(range(len(fancy_axes))))
    return moved[tuple(B)]


def blocks_ref(a, chunks, bidx):
    bidx = tuple(bidx) + (slice(None),) * (a.ndim - len(bidx))
    out = a
    for ax, (c, bi) in enumerate(zip(chunks, bidx)):
        offs = np.concatenate([[0], np.cumsum(c)])
        nb = len(c)
        if isinstance(bi, Integral):
            sel = [range(nb)[bi]]
        elif isinstance(bi, slice):
            sel = list(range(nb)[bi])
        else:
            sel = [range(nb)[i] for i in bi]
        pos = np.concatenate([np.arange(offs[b], offs[b + 1]) for b in sel]) if sel else np.array([], dtype=int)
        out = np.take(out, pos.astype(int), axis=ax)
    return out


def empty_block_selection(case, chunks):
    bidx = dec_index(case["bidx"])
    for c, bi in zip(chunks, bidx):
        nb = len(c)
        try:
            sel = [range(nb)[bi]] if isinstance(bi, Integral) else list(range(nb)[bi]) if isinstance(bi, slice) else list(bi)
        except Exception:
            return False
        if len(sel) == 0:
            return True
    return False


def judge(case, a, chunks, ctx):
    e, r, cls_idx = evaluate(case, a, chunks)
    kind = case["kind"]
    e_raises = isinstance(e, tuple) and len(e) == 2 and e[0] == "raises"
    r_raises = isinstance(r, tuple) and len(r) == 2 and r[0] == "raises"
    sig = kind
    if "idx" in case and kind in ("basic", "chain"):
        sig = kind + ":" + ",".join(kind_of(x) for x in dec_index(case["idx"]))
    nblocks = int(np.prod([len(c) for c in chunks])) if chunks else 1
    if e_raises and r_raises:
        ctx.tab("outcomes", f"{kind}:both_raise")
        ctx.seen((sig, a.ndim, min(nblocks, 3), "raise"), False)
        return None
    if r_raises and isinstance(r[1], IndexerModified):
        ctx.tab("outcomes", f"{kind}:INDEXER_MODIFIED")
        return ("indexer_modified", str(r[1]), f"{kind}:caller_index_array_modified")
    if r_raises:
        ex = r[1]
        ctx.tab("outcomes", f"{kind}:refused:{type(ex).__name__}")
        ctx.tab("refused_sites", f"{type(ex).__name__}:{exc_site(ex)}")
        return None
    if e_raises:
        ex = e[1]
        if isinstance(ex, IndexError):
            ctx.tab("outcomes", f"{kind}:numpy_raises_dask_returns")
            return ("returns_where_numpy_raises", f"NumPy raises {type(ex).__name__}: {ex}; dask returned data of shape {np.shape(r)}", f"{kind}:returns_where_numpy_raises")
        ctx.tab("outcomes", f"{kind}:numpy_raises_{type(ex).__name__}")
        return None
    why = same(e, r)
    ctx.seen((sig, a.ndim, min(nblocks, 3)), nblocks >= 2 and np.size(e) > 0)
    if why is None:
        ctx.tab("outcomes", f"{kind}:match")
        return None
    ctx.tab("outcomes", f"{kind}:MISMATCH")
    mech = f"{kind}:mismatch:{why.split()[0]}"
    if cls_idx is not None and nonadjacent_int_list(cls_idx):
        mech = "getitem:int_and_list_nonadjacent"
    if kind == "blocks" and empty_block_selection(case, chunks):
        mech = "blocks:empty_block_selection"
    if int(np.prod(a.shape)) == 0:
        mech += "|zero_size"
    return ("mismatch", why, mech)


def run_one(rng, ctx):
    case, a, chunks = gen_case(rng, ctx.tier)
    ctx.current_case = case
    case["array_seed"] = None
    case["values"] = a.tolist() if a.size <= 64 else None
    case["leaf"] = None
    # make the case replayable: store the leaf seed by regenerating deterministically
    case["_a"] = None
    r = judge(case, a, chunks, ctx)
    for k_, v_ in _COUNTS.items():
        ctx.count(k_, v_)
    _COUNTS.clear()
    del case["_a"]
    if len(ctx.samples) < 3:
        ctx.sample({k: v for k, v in case.items() if k in ("kind", "shape", "chunks", "idx", "vidx", "bidx")})
    if r is not None:
        case["flat"] = a.ravel().tolist()
        ctx.violation(r[0], f"{r[1]}\n  case: { {k: v for k, v in case.items() if k not in ('flat', 'values')} }", case=case, mech=r[2])
    for v in K.flush_to(ctx):
        ctx.violation("contract:" + v["mech"].split(":")[0], v["msg"], case={"fn": v["fn"], "call": v["call"]}, mech="contract:" + v["mech"])


def exhaustive_1d(ctx):
    """All chunkings x all in-range-ish slices and ints for 1-D n <= 6 (thorough tier)."""
    import dask_array as da

    from vf.checks.c13 import all_slices, compositions

    slices = list(all_slices(8))
    i = 0
    for n in range(0, 7):
        a = np.arange(n) * 3 + 1
        for lengths in compositions(n):
            i += 1
            if i % ctx.nworkers != ctx.index:
                continue
            x = da.from_array(a, chunks=(lengths,))
            for s in slices:
                exp = a[s]
                try:
                    got = x[s].compute()
                except Exception as e:
                    ctx.tab("outcomes", f"exh1d:refused:{type(e).__name__}")
                    continue
                ctx.count("exhaustive_1d_cases")
                if exp.shape != got.shape or not np.array_equal(exp, got):
                    ctx.violation("mismatch", f"1-D n={n} chunks={lengths} index {s}: expected {exp} got {got}", case={"kind": "basic", "shape": [n], "dtype": "int64", "chunks": [list(lengths)], "idx": enc_index((s,)), "flat": a.tolist()}, mech="basic:mismatch:exh1d")
            for k in range(-n - 1, n + 1):
                try:
                    exp = a[k]
                except IndexError:
                    exp = None
                try:
                    got = x[k].compute()
                except Exception:
                    got = None
                if exp is None and got is not None:
                    ctx.violation("returns_where_numpy_raises", f"1-D n={n} chunks={lengths} int {k}", case={"kind": "basic", "shape": [n], "dtype": "int64", "chunks": [list(lengths)], "idx": [k], "flat": a.tolist()}, mech="basic:returns_where_numpy_raises")
                elif exp is not None and got is not None and exp != got:
                    ctx.violation("mismatch", f"1-D n={n} chunks={lengths} int {k}: {exp} vs {got}", case={"kind": "basic", "shape": [n], "dtype": "int64", "chunks": [list(lengths)], "idx": [k], "flat": a.tolist()}, mech="basic:mismatch:exh1d")
        if now() > ctx.deadline:
            return
    ctx.count("exhaustive_1d_completed")


def replay_case(case, ctx):
    K.install("slicing")
    if "fn" in case:
        from vf.checks import c13

        return c13.replay_case(case, ctx)
    a = np.asarray(case["flat"], dtype=case["dtype"]).reshape(case["shape"])
    chunks = tuple(tuple(c) for c in case["chunks"])
    r = judge(case, a, chunks, ctx)
    if r is not None:
        ctx.violation(r[0], r[1], case=case, mech=r[2])


def finalize(ctx):
    if ctx.tier == "thorough" and not ctx.state.get("exh_done"):
        pass
    t = ctx.tables.get("outcomes", {})
    if not any(k.endswith(":match") for k in t):
        ctx.inconc("no index matched NumPy: monitor never compared values")


RULE += (
    ' Every ndarray indexer handed over is compared with its copy afterwards (a modified caller array is a violation); one index array with negative entries is used on two axes of different length; 4-d/5-d vindex with non-adjacent point indexers.'
)
