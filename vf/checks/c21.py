"""C21 - the Frisky records path computes the same results as the dask graph (records interpreter as sequential model)."""

from __future__ import annotations

import random

import dask
import numpy as np
from dask._task_spec import TaskRef
from dask.core import flatten

from vf import sched
from vf.common import exc_site, msg_key, short_tb
from vf.gen import Prog, ReplayRefused
from vf.oracles import fingerprint
from vf.util import closure_has_zero, fresh, root_class, tally_ops, tally_prog

PROPERTY = "C21"
WORKERS = {"quick": 16, "thorough": 16}
CASES = {"quick": 600, "thorough": 4000}
TIME = {"quick": 45, "thorough": 240}
CASE_TIMEOUT = 120
TECHNIQUE = (
    "runtime monitoring with an executable model of a Frisky record: a 40-line records interpreter (resolve TaskRefs in args, lists/tuples "
    "and dict values, call func(*args, **kwargs) in dependency order) runs the records of __frisky_graph__() / __frisky_records_chunks__(); "
    "structural monitors check that every advertised output key and every dependency is produced, that no key is produced twice with "
    "different content and that the TaskRefs embedded in a record are exactly its deps; block values are compared key by key with the "
    "dask graph executed by the instrumented scheduler; groups of collections are walked with one shared `seen` set"
)
RULE = (
    "outputs of generated programs of every root / inner expression class (legacy-tuple layers: overlap, partial reductions, from_array "
    "getters; nested inline tasks: rechunk merges, setitem, concatenate; aliases; persisted FromGraph inputs; unknown chunks; masked "
    "arrays, which must decline), singly and in groups of 2-4 sharing subtrees. Without the native extension every node goes through "
    "GraphRecordsLayer - the generic translation the property names. distinct = (root class, set of inner classes); non-trivial = >= 2 "
    "expression classes translated, >= 6 records interpreted and all output blocks compared"
)
ASSUMPTIONS = [
    "the interpreter is the semantics of a record: func(*args, **kwargs) with TaskRefs replaced by the referenced results (lists, tuples and dict values are searched, dict keys and sets are not)",
    "the native Rust layers are not built in this sandbox: only the pure-Python records path is observed",
]
WEIGHTS = {"#window": 1.5, "#rechunk": 1.5, "#setitem": 2.0, "#index": 1.3, "#reduction": 1.3, "#combine": 1.5, "#linalg": 0.5}


def refs_in(obj, out, depth=0):
    if isinstance(obj, TaskRef):
        out.add(str(obj.key))
    elif isinstance(obj, (list, tuple)) and depth < 12:
        for x in obj:
            refs_in(x, out, depth + 1)
    elif isinstance(obj, dict) and depth < 12:
        for x in obj.values():
            refs_in(x, out, depth + 1)
    return out


def subst(obj, values, depth=0):
    if isinstance(obj, TaskRef):
        return values[str(obj.key)]
    if isinstance(obj, list) and depth < 12:
        return [subst(x, values, depth + 1) for x in obj]
    if isinstance(obj, tuple) and depth < 12:
        return tuple(subst(x, values, depth + 1) for x in obj)
    if isinstance(obj, dict) and depth < 12:
        return {k: subst(v, values, depth + 1) for k, v in obj.items()}
    return obj


def rec_content(r):
    key, func, args, kwargs, deps = r
    return (getattr(func, "__name__", repr(func)), repr(fingerprint(_strip(args))), repr(sorted((k, repr(fingerprint(_strip(v)))) for k, v in (kwargs or {}).items())), tuple(sorted(deps)))


def _strip(obj, depth=0):
    if isinstance(obj, TaskRef):
        return ("ref", str(obj.key))
    if isinstance(obj, (list, tuple)) and depth < 12:
        return type(obj)(_strip(x, depth + 1) for x in obj)
    if isinstance(obj, dict) and depth < 12:
        return {k: _strip(v, depth + 1) for k, v in obj.items()}
    return obj


def structural(records, out_keys, ctx, problems, label):
    produced = {}
    for r in records:
        if not (isinstance(r, tuple) and len(r) == 5):
            problems.append(("malformed_record", f"{label}: record is not a 5-tuple: {repr(r)[:200]}", "structure:malformed_record"))
            return None
        key, func, args, kwargs, deps = r
        ctx.count("records_checked")
        if not isinstance(key, str):
            problems.append(("key_not_str", f"{label}: record key {key!r} is not a string", "structure:key_not_str"))
        c = rec_content(r)
        if key in produced and produced[key][0] != c:
            problems.append(("key_produced_twice", f"{label}: key {key} is produced by two different records: {produced[key][0][:2]} vs {c[:2]}", "structure:duplicate_key_different_content"))
        elif key in produced:
            ctx.count("duplicate_identical_records")
        produced[key] = (c, r)
        refs = refs_in(args, set()) | refs_in(kwargs or {}, set())
        if refs != set(map(str, deps)):
            only_refs, only_deps = sorted(refs - set(map(str, deps)))[:3], sorted(set(map(str, deps)) - refs)[:3]
            problems.append(("refs_differ_from_deps", f"{label}: record {key} ({getattr(func, '__name__', func)}) embeds TaskRefs {only_refs} missing from deps / lists deps {only_deps} it does not reference", "structure:refs_vs_deps"))
    for key, (c, r) in produced.items():
        for d in r[4]:
            if str(d) not in produced:
                problems.append(("dangling_dep", f"{label}: record {key} depends on {d}, which no record produces", "structure:dangling_dep"))
                break
    for k in out_keys:
        if k not in produced:
            problems.append(("output_key_missing", f"{label}: output key {k} is not produced by any record", "structure:output_key_missing"))
            break
    return produced


def interpret(produced, want):
    """Run the records needed for `want` (iterative DFS); returns {key: value}."""
    values = {}
    stack = [(k, False) for k in want]
    onpath = set()
    while stack:
        k, ready = stack.pop()
        if k in values:
            continue
        r = produced[k][1]
        if not ready:
            if k in onpath:
                raise RuntimeError(f"cycle through {k}")
            onpath.add(k)
            stack.append((k, True))
            for d in r[4]:
                if str(d) not in values:
                    if str(d) not in produced:
                        raise KeyError(str(d))
                    stack.append((str(d), False))
            continue
        key, func, args, kwargs, deps = r
        values[k] = func(*subst(args, values), **subst(kwargs or {}, values))
        onpath.discard(k)
    return values


def close(a, b):
    if isinstance(a, np.generic):
        a = np.asarray(a)
    if isinstance(b, np.generic):
        b = np.asarray(b)
    fa, fb = fingerprint(a), fingerprint(b)
    if fa == fb:
        return True
    if isinstance(a, np.ndarray) and isinstance(b, np.ndarray) and a.shape == b.shape and a.dtype == b.dtype and a.dtype.kind in "fc":
        with np.errstate(all="ignore"):
            # (atol relative to the block's magnitude: a linspace re-sliced by the optimizer gives 8.9e-16 where the
            # other path gives exactly 0.0 - last-bit noise, not another array)
            fin = np.abs(a[np.isfinite(a)]) if a.size else np.zeros(0)
            scale = float(fin.max()) if fin.size else 1.0
            return bool(np.allclose(a, b, rtol=1e-12, atol=1e-12 * max(1.0, scale), equal_nan=True))
    return False


def check_collections(cols, ctx, problems, label, z):
    """cols: list of dask_array collections walked with one shared `seen`."""
    seen = set() if len(cols) > 1 else None
    records, out_keys = [], []
    # the dask graph first: a program the dask path cannot build or compute is C01's/C08's business
    try:
        want_vals = {}
        for x in cols:
            y = fresh(x)
            dsk = sched.materialize(y)
            run = sched.execute(dsk, order="lifo", check_mutation=False)
            for k in flatten(y.__dask_keys__()):
                want_vals[str(k)] = run.values[k]
    except Exception as e:
        ctx.tab("dask_graph_raised_left_to_C01", f"{type(e).__name__}:{exc_site(e)}")
        return "dask_raised"
    for x in cols:
        try:
            ok = x.__frisky_output_keys__()
            recs = x.__frisky_graph__(seen=seen) if seen is not None else x.__frisky_graph__()
        except NotImplementedError as e:
            ctx.tab("declined", f"{root_class(x)}:{msg_key(e)}")
            return "declined"
        except Exception as e:
            problems.append(("records_raise", f"{label}: __frisky_graph__ raised {short_tb(e)}", f"records:raise:{type(e).__name__}:{exc_site(e)}:{msg_key(e)}{z}"))
            return "raised"
        records.extend(recs)
        out_keys.extend(ok)
    if seen is not None:
        # completeness of the union is the caller's job in shared mode
        pass
    produced = structural(records, out_keys, ctx, problems, label)
    if produced is None or problems:
        return "structural"
    try:
        values = interpret(produced, list(out_keys))
    except Exception as e:
        problems.append(("records_do_not_compute", f"{label}: interpreting the records raised {short_tb(e, 5)}", f"interpret:raise:{type(e).__name__}:{msg_key(e)}{z}"))
        return "interpret_raised"
    ctx.count("records_interpreted", len(values))
    for k in out_keys:
        ctx.count("output_blocks_compared")
        if k not in want_vals:
            problems.append(("output_key_unknown_to_dask", f"{label}: Frisky output key {k} is not a key of __dask_keys__()", "keys:frisky_vs_dask"))
            break
        if not close(values[k], want_vals[k]):
            problems.append(("block_value_differs", f"{label}: block {k} computed from the records {fingerprint(values[k])[:3]} differs from the dask graph's {fingerprint(want_vals[k])[:3]}", f"values:block_differs{z}"))
            break
    return "compared"


def check_program(g, vs, ctx, rng):
    problems = []
    z = "|zero_size" if any(closure_has_zero(g, v) for v in vs) else ""
    # each alone
    for v in vs:
        x = fresh(v.da)
        label = f"single:{root_class(x)}"
        st = check_collections([x], ctx, problems, label, z)
        ctx.tab("outcomes", f"single|{st}")
        if st != "compared":
            continue
        # the binary-records protocol: without the native extension every layer declines the binary chunk
        try:
            chunks, recs, groups = fresh(v.da).__frisky_records_chunks__()
            ctx.count("records_chunks_calls")
            if len(chunks) != len(groups):
                problems.append(("chunk_groups_not_parallel", f"{label}: {len(chunks)} chunks, {len(groups)} groups", "records_chunks:groups"))
            if not chunks:
                ok = x.__frisky_output_keys__()
                p2 = []
                structural(recs, ok, ctx, p2, label + ":records_chunks")
                problems.extend(p2)
            else:
                ctx.count("binary_chunks_seen")
        except NotImplementedError:
            ctx.count("records_chunks_declined")
        except Exception as e:
            problems.append(("records_chunks_raise", f"{label}: __frisky_records_chunks__ raised {short_tb(e)}", f"records_chunks:raise:{type(e).__name__}:{exc_site(e)}{z}"))
        # a persisted input
        if rng.random() < 0.25 and not problems:
            try:
                p = fresh(v.da).persist()
                st = check_collections([p + 0 if p.dtype.kind != "b" else p], ctx, problems, "persisted_input:" + root_class(p), z)
                ctx.tab("outcomes", f"persisted|{st}")
            except Exception as e:
                ctx.tab("persist_raised", type(e).__name__)
    # a group with one shared `seen`
    if len(vs) >= 2 and not problems:
        st = check_collections([fresh(v.da) for v in vs], ctx, problems, f"group_of_{len(vs)}", z)
        ctx.tab("outcomes", f"group|{st}")
    return problems


def run_one(rng, ctx):
    big = ctx.tier == "thorough"
    g = Prog(rng, max_extent=rng.choice([7, 9]) if big else 7, max_size=3000, weights=WEIGHTS)
    g.grow(rng.randint(2, 9 if big else 7))
    tally_prog(g, ctx)
    non_leaf = [v for v, s in zip(g.vars, g.steps) if s["in"] and v.da is not None]
    if not non_leaf:
        return
    k = rng.choice([1, 1, 2, 3, 4])
    vs = non_leaf[-k:]
    steps, remap = g.closure_multi([v.id for v in vs])
    case = {"steps": steps, "outs": [remap[v.id] for v in vs], "rseed": rng.randrange(10**9)}
    ctx.current_case = case
    problems = check_program(g, vs, ctx, random.Random(case["rseed"]))
    ctx.count("programs_checked")
    try:
        classes = sorted({type(n).__name__ for v in vs for n in v.da._lowered_expr.walk()})
    except Exception:
        classes = []
    for c in classes:
        ctx.tab("classes_translated", c)
    ctx.seen((root_class(vs[-1].da), tuple(classes)), len(classes) >= 2)
    tally_ops(steps, ctx)
    if len(ctx.samples) < 2 and len(classes) >= 3:
        ctx.sample({"steps": steps, "classes": classes})
    seen = set()
    kw_coll = any(s_["op"] == "map_blocks_kwarg" for s_ in steps)
    for kind, msg, mech in problems:
        if kw_coll and mech.startswith("interpret:raise:TypeError:numpy_"):
            # a record whose "function" is a piece of data ('numpy.ndarray' / 'numpy.float64' / 'numpy.int64' object is not callable)
            mech = "interpret:raise:TypeError:numpy_ndarray_object:collection_kwarg"
        elif kw_coll and (mech.startswith("structure:dangling_dep") or mech.startswith("structure:duplicate_key_different_content")):
            mech += ":collection_kwarg"  # recorded finding: records of a Blockwise holding a dask collection in its kwargs
        if mech in seen:
            continue
        seen.add(mech)
        ctx.violation(kind, f"{msg}\n  program: {steps}", case=case, mech=mech)


def replay_case(case, ctx):
    try:
        g = Prog.replay(case["steps"])
    except ReplayRefused as e:
        ctx.violation("build_raises_on_replay", str(e), case=case, mech="replay_refused")
        return
    problems = check_program(g, [g.vars[i] for i in case["outs"]], ctx, random.Random(case.get("rseed", 0)))
    seen = set()
    for kind, msg, mech in problems:
        if mech not in seen:
            seen.add(mech)
            ctx.violation(kind, msg, case=case, mech=mech)


def finalize(ctx):
    if ctx.counters.get("records_interpreted", 0) == 0:
        ctx.inconc("no record was interpreted")
    if ctx.counters.get("output_blocks_compared", 0) == 0:
        ctx.inconc("no output block was compared with the dask graph")
