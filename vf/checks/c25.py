"""C25 - store writes exactly the array into the requested target regions (write-event conservation)."""

from __future__ import annotations

import os
import shutil
import tempfile
import threading

import dask
import numpy as np

from vf import rec
from vf.common import VERIF, exc_site, msg_key, short_tb
from vf.gen import rand_chunks
from vf.oracles import same

PROPERTY = "C25"
WORKERS = {"quick": 16, "thorough": 16}
CASES = {"quick": 900, "thorough": 5400}
TIME = {"quick": 50, "thorough": 240}
TECHNIQUE = "runtime monitoring: recording targets count writes per cell and log every write (bounds, lock state, phase); offline conservation check (each region cell written exactly once, none outside) plus NumPy mirror; npy-stack round trip in a scratch directory"
RULE = (
    "1-3 source/target pairs; sources are from_array arrays, elementwise results, and sliding-window reductions (whose optimized layout "
    "differs from the advertised one); targets are recording array-likes larger than the source; regions = offset slices, None, per-pair "
    "lists; lock True/False/threading.Lock; compute x return_stored x load_stored; sync and threaded schedulers. Violations: a cell inside "
    "the region written != 1 times or a cell outside written at all; a write out of the target's bounds; target[region] != NumPy value; a "
    "write while the supplied lock is not held; any write before compute() when compute=False; return_stored result != source; "
    "to_npy_stack/from_npy_stack round trip != array. distinct = (source kind, region kind, options, nblocks class); non-trivial = source "
    "with >= 2 blocks and a non-trivial region"
)
ASSUMPTIONS = ["NumPy values of the sources are the reference; a raise of da.store at build time is a refusal (tallied)"]
SW = np.lib.stride_tricks.sliding_window_view


def gen_case(rng, tier):
    npairs = rng.choice([1, 1, 1, 2, 3])
    pairs = []
    for _ in range(npairs):
        nd = rng.choice([1, 2, 2, 3, 0])
        shape = [rng.randint(1, 9 if tier == "quick" else 16) for _ in range(nd)]
        kind = rng.choice(["plain", "plain", "elemwise", "sliding", "sliding", "transpose"]) if nd else rng.choice(["plain", "elemwise"])
        chunks = [list(c) for c in rand_chunks(rng, shape)]
        p = {"shape": shape, "chunks": chunks, "kind": kind}
        if kind == "sliding":
            ax = rng.randrange(nd)
            w = rng.randint(1, shape[ax])
            p["w"], p["axis"] = w, ax
        offsets = [rng.randint(0, 3) for _ in range(nd)]
        extra = [rng.randint(0, 3) for _ in range(nd)]
        p["offsets"], p["extra"] = offsets, extra
        p["region"] = rng.choice(["offset", "offset", "none", "full_slices", "int_axes"]) if nd else rng.choice(["none", "int_axes", "int_axes"])
        if p["region"] == "int_axes":
            # the target has extra axes addressed by integers in the region (a 0-d source lands on one cell)
            k = rng.randint(1, 2)
            ins = []
            for _k in range(k):
                size = rng.randint(1, 4)
                ins.append([rng.randint(0, nd + _k), size, rng.randrange(size)])
            p["int_axes"] = ins
        pairs.append(p)
    lock = rng.choice(["true", "false", "lock"])
    compute = rng.random() < 0.75
    return_stored = rng.random() < 0.35
    load_stored = rng.choice([None, True, False]) if return_stored else None
    sched = rng.choice(["sync", "threads", "threads"])
    if npairs > 1 and rng.random() < 0.4:
        # the same source stored into several targets of one shape (real ndarrays: equal content before the store)
        pairs = [dict(pairs[0]) for _ in range(npairs)]
    return {"nd_targets": rng.random() < 0.3, "pairs": pairs, "lock": lock, "compute": compute, "return_stored": return_stored, "load_stored": load_stored, "scheduler": sched, "region_as_list": rng.random() < 0.5}


def build_pair(p):
    import dask_array as da

    shape = tuple(p["shape"])
    a = (np.arange(int(np.prod(shape)), dtype="f8") * 2 + 1000).reshape(shape)
    x = da.from_array(a, chunks=tuple(tuple(c) for c in p["chunks"]))
    e = a
    if p["kind"] == "elemwise":
        x, e = x * 2 + 1, a * 2 + 1
    elif p["kind"] == "transpose" and len(shape) >= 2:
        x, e = x.T, a.T
    elif p["kind"] == "sliding":
        x = da.sliding_window_view(x, p["w"], axis=p["axis"]).sum(-1)
        e = SW(a, p["w"], axis=p["axis"]).sum(-1)
    return x, e


def judge(case, ctx):
    import dask_array as da

    rec.PHASE["now"] = "build"
    lockobj = None
    if case["lock"] == "lock":
        lockobj = threading.Lock()
    lock = {"true": True, "false": False, "lock": lockobj}[case["lock"]]
    sources, expected, targets, regions = [], [], [], []
    try:
        for p in case["pairs"]:
            x, e = build_pair(p)
            nd = e.ndim
            offs = p["offsets"][:nd] + [0] * (nd - len(p["offsets"]))
            extra = p["extra"][:nd] + [0] * (nd - len(p["extra"]))
            if p["region"] == "none":
                tshape = e.shape
                region = None
            elif p["region"] == "full_slices":
                tshape = e.shape
                region = tuple(slice(None) for _ in range(nd))
            else:
                tshape = [s + o + x_ for s, o, x_ in zip(e.shape, offs, extra)]
                region = [slice(o, o + s) for o, s in zip(offs, e.shape)]
                if p["region"] == "int_axes":
                    for pos, size, at in p["int_axes"]:
                        pos = min(pos, len(tshape))
                        tshape.insert(pos, size)
                        region.insert(pos, at)
                    ctx.count("integer_regions")
                    if nd == 0:
                        ctx.count("zero_d_sources_with_region")
                tshape, region = tuple(tshape), tuple(region)
            t = (rec.RecNdTarget if case.get("nd_targets") else rec.RecTarget)(tshape, "f8", lock=lockobj)
            sources.append(x)
            expected.append(e)
            targets.append(t)
            regions.append(region)
    except Exception as ex:
        ctx.tab("refused_at_build", f"{type(ex).__name__}:{exc_site(ex)}")
        return []
    single = len(sources) == 1
    if all(r is None for r in regions):
        regs = None
    elif single:
        regs = regions[0]
    elif len({str(r) for r in regions}) == 1 and not case["region_as_list"]:
        regs = regions[0]
    else:
        if any(r is None for r in regions):
            regs = [r if r is not None else tuple(slice(None) for _ in range(t.ndim)) for r, t in zip(regions, targets)]
            regions = regs
        else:
            regs = list(regions)
    kw = dict(lock=lock, regions=regs, compute=case["compute"], return_stored=case["return_stored"])
    if case["load_stored"] is not None:
        kw["load_stored"] = case["load_stored"]
    problems = []
    try:
        with dask.config.set(scheduler=case["scheduler"]):
            res = da.store(sources[0] if single else sources, targets[0] if single else targets, **kw)
    except Exception as ex:
        ctx.tab("store_raised", f"{type(ex).__name__}:{exc_site(ex)}:{msg_key(ex)}")
        return [("store_raises", short_tb(ex, 10), f"store_raises:{type(ex).__name__}:{exc_site(ex)}:{msg_key(ex)}")] if case["compute"] or True else []
    if not case["compute"]:
        early = [ev for t in targets for ev in t.events if ev.kind == "write"]
        ctx.count("deferred_stores")
        if early:
            problems.append(("write_before_compute", f"{len(early)} writes happened before compute() with compute=False", "write_before_compute"))
        with rec.phase("execute"), dask.config.set(scheduler=case["scheduler"]):
            try:
                if case["return_stored"] and case["load_stored"] is not False:
                    out = dask.compute(*res) if isinstance(res, (tuple, list)) else dask.compute(res)
                    res_vals = list(out)
                elif case["return_stored"]:
                    (dask.compute(*[r.to_delayed().ravel().tolist() for r in res]) if isinstance(res, (tuple, list)) else dask.compute(res.to_delayed().ravel().tolist()))
                    res_vals = None
                else:
                    dask.compute(res)
                    res_vals = None
            except Exception as ex:
                return problems + [("store_raises", short_tb(ex, 10), f"store_raises:{type(ex).__name__}:{exc_site(ex)}:{msg_key(ex)}")]
    else:
        res_vals = None
        # (compute=False with load_stored=False returns arrays whose blocks are the *targets*:
        # "directly computing this result is not what you want" - handled above; with compute=True
        # the returned arrays always load from the targets)
        if case["return_stored"]:
            try:
                with rec.phase("execute"), dask.config.set(scheduler=case["scheduler"]):
                    rs = res if isinstance(res, (tuple, list)) else [res]
                    res_vals = [r.compute() for r in rs]
            except Exception as ex:
                return problems + [("return_stored_raises", short_tb(ex, 10), f"return_stored_raises:{type(ex).__name__}:{exc_site(ex)}")]
    # conservation
    for i, (t, e, region) in enumerate(zip(targets, expected, regions)):
        inside = np.zeros(t.shape, dtype=bool)
        inside[region if region is not None else tuple(slice(None) for _ in range(t.ndim))] = True
        writes = [ev for ev in t.events if ev.kind == "write"]
        ctx.count("writes_logged", len(writes))
        ctx.count("cells_covered", int(inside.sum()))
        bad_in = np.argwhere(inside & (t.count != 1)) if e.size else np.zeros((0,))
        bad_out = np.argwhere(~inside & (t.count != 0))
        if len(bad_in):
            c = tuple(bad_in[0])
            problems.append(("cell_write_count", f"pair {i}: cell {c} inside region {region} written {int(t.count[c])} times (expected 1); {len(bad_in)} such cells", "cell_write_count:inside"))
        if len(bad_out):
            c = tuple(bad_out[0])
            problems.append(("write_outside_region", f"pair {i}: cell {c} outside region {region} written {int(t.count[c])} times", "write_outside_region"))
        for ev in writes:
            if ev.problem:
                problems.append(("write_out_of_bounds", f"pair {i}: write {rec.enc(ev.index)}: {ev.problem}", "write_out_of_bounds"))
                break
        if lockobj is not None:
            unl = [ev for ev in writes if ev.locked is False]
            ctx.count("locked_writes_checked", len(writes))
            if unl:
                problems.append(("write_without_lock", f"pair {i}: {len(unl)} of {len(writes)} writes without the supplied lock held", "write_without_lock"))
        got = t.data[region] if region is not None else t.data
        why = same(e.astype("f8"), got, check_dtype=False)
        ctx.count("targets_compared")
        if why and not len(bad_in):
            problems.append(("target_values", f"pair {i}: target[region] differs from the source values: {why}", f"target_values:{why.split()[0]}"))
        untouched = t.data[~inside]
        if untouched.size and not (untouched == rec.RecTarget.SENTINEL).all():
            problems.append(("outside_modified", f"pair {i}: cells outside the region no longer hold the sentinel", "outside_modified"))
    if res_vals is not None and case["return_stored"]:
        for i, (rv, e) in enumerate(zip(res_vals, expected)):
            ctx.count("return_stored_compared")
            why = same(e.astype("f8"), np.asarray(rv), check_dtype=False)
            if why:
                problems.append(("return_stored_values", f"pair {i}: return_stored result differs from the source: {why}", f"return_stored_values:{why.split()[0]}"))
    return problems


def npy_roundtrip(rng, ctx):
    import dask_array as da

    nd = rng.choice([1, 2, 3])
    shape = tuple(rng.randint(1, 7) for _ in range(nd))
    axis = rng.randrange(nd)
    many = rng.random() < 0.4
    if many:
        # more than ten blocks along the stacking axis (file names 10.npy, 11.npy sort before 2.npy as text)
        shape = tuple(rng.randint(11, 30) if i == axis else min(s, 3) for i, s in enumerate(shape))
    a = (np.arange(int(np.prod(shape))) * 1.5).reshape(shape)
    chunks = list(rand_chunks(rng, shape))
    if many:
        chunks[axis] = tuple(rng.choice([(1,) * shape[axis], (1, 2) * (shape[axis] // 3) + (1,) * (shape[axis] % 3)]))
        ctx.count("npy_stacks_with_over_ten_blocks")
    x = da.from_array(a, chunks=tuple(chunks))
    root = os.path.join(VERIF, "scratch")
    os.makedirs(root, exist_ok=True)
    d = tempfile.mkdtemp(prefix="npy_", dir=root)
    try:
        da.to_npy_stack(d, x, axis=axis)
        y = da.from_npy_stack(d)
        got = y.compute()
        ctx.count("npy_roundtrips")
        why = same(a, got)
        if why:
            return [("npy_roundtrip", f"to_npy_stack/from_npy_stack over axis {axis} of shape {shape}: {why}", "npy_roundtrip")]
        if rng.random() < 0.5:
            # the stack is rewritten in place (other data, other chunks) while the first array is still alive
            for f in os.listdir(d):
                os.remove(os.path.join(d, f))
            a2 = a * 2 + 1
            x2 = da.from_array(a2, chunks=rand_chunks(rng, shape))
            da.to_npy_stack(d, x2, axis=axis)
            y2 = da.from_npy_stack(d)
            ctx.count("npy_stacks_rewritten_in_place")
            try:
                got2 = y2.compute()
            except Exception as ex:
                return [("npy_rewritten_stack", f"from_npy_stack of a directory rewritten in place raised {type(ex).__name__}: {ex}", "npy_rewritten_stack:raise")]
            why = same(a2, got2)
            if why or tuple(y2.chunks[axis]) != tuple(x2.chunks[axis]):
                return [("npy_rewritten_stack", f"from_npy_stack of a directory rewritten in place: chunks {y2.chunks} (written {x2.chunks}); {why}", "npy_rewritten_stack")]
    except Exception as ex:
        ctx.tab("npy_raised", f"{type(ex).__name__}:{exc_site(ex)}")
    finally:
        shutil.rmtree(d, ignore_errors=True)
    return []


def run_one(rng, ctx):
    if rng.random() < 0.1:
        for kind, msg, mech in npy_roundtrip(rng, ctx):
            ctx.violation(kind, msg, case={"npy": True}, mech=mech)
        return
    case = gen_case(rng, ctx.tier)
    ctx.current_case = case
    problems = judge(case, ctx)
    ctx.count("stores_checked")
    p0 = case["pairs"][0]
    nb = int(np.prod([len(c) for c in p0["chunks"]]))
    ctx.seen((tuple(p["kind"] for p in case["pairs"]), tuple(p["region"] for p in case["pairs"]), case["lock"], case["compute"], case["return_stored"], case["load_stored"], case["scheduler"], min(nb, 3)), nb >= 2 and p0["region"] == "offset")
    ctx.tab("source_kinds", p0["kind"])
    if len(ctx.samples) < 3:
        ctx.sample(case)
    seen = set()
    for kind, msg, mech in problems:
        if mech in seen:
            continue
        seen.add(mech)
        ctx.violation(kind, f"{msg}\n  case: {case}", case=case, mech=mech)


def replay_case(case, ctx):
    if case.get("npy"):
        return
    for kind, msg, mech in judge(case, ctx):
        ctx.violation(kind, msg, case=case, mech=mech)


def finalize(ctx):
    if ctx.counters.get("writes_logged", 0) == 0:
        ctx.inconc("no write was logged")


RULE += (
    ' 0-d sources, regions with integers on extra target axes, real ndarray targets of equal content, one source stored into several targets, npy stacks of 11-30 blocks and stacks rewritten in place.'
)
