"""C10 - computation is schedule-independent and never mutates inputs (task-level mutation monitor)."""

from __future__ import annotations

import random
import sys

import dask
import numpy as np

from vf import gen as G
from vf import sched
from vf.common import exc_site, msg_key, short_tb
from vf.gen import Prog, ReplayRefused
from vf.oracles import fingerprint
from vf.util import closure_has_zero, graph_of, tally_ops, tally_prog

PROPERTY = "C10"
WORKERS = {"quick": 16, "thorough": 16}
CASES = {"quick": 350, "thorough": 3000}
TIME = {"quick": 55, "thorough": 240}
CASE_TIMEOUT = 120
TECHNIQUE = "runtime monitoring with an instrumented scheduler: every task result is fingerprinted when produced and each task's inputs are re-fingerprinted right after it ran (mutation is decided in a serial run, no lucky interleaving needed); outputs of seeded random / FIFO / LIFO topological orders and of the threaded scheduler are compared with each other and with NumPy; user source arrays are compared with private copies"
RULE = (
    "programs from G biased to the anchored hazards (NumPy sources whose views sit in the graph, rechunk splits, in-place kernels: "
    "sliding-window reductions, where=/out= ufuncs, setitem, cumulative scans, nan-reducers, fused tasks, shared inputs). For the optimized "
    "graph: (a) serial monitored run - after each task the fingerprints of its inputs must equal those taken when they were produced; "
    "(b) K seeded random topological orders + FIFO + LIFO + threads scheduler (4/16 workers, switch interval 1e-5) must give identical "
    "outputs, equal to NumPy; (c) the arrays handed to from_array must equal their private copies afterwards. distinct = (op sequence, "
    "order hash); non-trivial = graph with >= 6 tasks executed under >= 3 distinct orders"
)
ASSUMPTIONS = ["fingerprints are blake2b over dtype, shape and C-contiguous bytes; views are legal (counted), only value changes count"]
WEIGHTS = {"#window": 2.0, "#rechunk": 2.0, "#setitem": 3.0, "#whereout": 4.0, "#scan": 2.0, "#reduction": 1.3, "#index": 1.3, "#linalg": 0.5}


def outputs_of(keys, run):
    from dask.core import flatten

    return {k: run.fp[k] for k in flatten(keys) if k in run.fp}


def check_program(g, v, ctx, srcs, big):
    problems = []
    z = "|zero_size" if closure_has_zero(g, v) else ""
    try:
        y, dsk, keys = graph_of(v.da, True)
    except Exception as e:
        ctx.tab("graph_raised_left_to_C08", f"{type(e).__name__}:{exc_site(e)}")
        return problems, 0, 0
    ntasks = len(dsk)
    ref = None
    orders = set()
    plans = [("random", 1), ("random", 2), ("fifo", 0), ("lifo", 0), ("sorted", 0), ("rsorted", 0)]
    if big:
        plans += [("random", s) for s in range(3, 9)]
    for kind, seed in plans:
        try:
            run = sched.execute(dsk, order=kind, rng=random.Random(seed), check_mutation=True)
        except Exception as e:
            ctx.tab("execute_raised_left_to_C01", f"{type(e).__name__}:{exc_site(e)}:{msg_key(e)}")
            return problems, ntasks, len(orders)
        ctx.count("tasks_executed", run.ntasks)
        ctx.count("input_refingerprints", run.refp)
        orders.add(sched.order_hash(run.order))
        if run.mutations:
            t, d, before, after = run.mutations[0]
            problems.append(("task_mutates_input", f"task {t!r} changed the value of its input {d!r} ({before[1:3]} -> {after[1:3]}) [order {kind}:{seed}]", f"task_mutates_input:{str(t[0]).split('-')[0] if isinstance(t, tuple) else str(t).split('-')[0]}"))
            break
        out = outputs_of(keys, run)
        if ref is None:
            ref = out
            try:
                val = sched.assemble(keys, run.values)
                why = G.vsame(v, val)
                if why:
                    ctx.count("differs_from_numpy_left_to_C01")
            except Exception:
                pass
        elif out != ref:
            bad = [k for k in out if out[k] != ref.get(k)][:2]
            problems.append(("order_dependent", f"outputs differ between topological orders ({kind}:{seed} vs random:1) at keys {bad}", f"order_dependent:{g.steps[v.id]['op']}{z}"))
            break
    # threaded scheduler
    if not problems and ref is not None:
        old = sys.getswitchinterval()
        sys.setswitchinterval(1e-5)
        try:
            for nw in (4, 16):
                with dask.config.set(scheduler="threads", num_workers=nw):
                    try:
                        got = type(v.da)(v.da.expr).compute()
                    except Exception as e:
                        ctx.tab("threaded_compute_raised", f"{type(e).__name__}:{exc_site(e)}")
                        break
                ctx.count("threaded_runs")
                serial = sched.assemble(keys, sched.execute(dsk, order="lifo", check_mutation=False).values)
                if fingerprint(np.asarray(got)) != fingerprint(np.asarray(serial)):
                    if G.vsame(v, got) is not None or v.inx == 0:
                        problems.append(("threads_differ", f"threaded result (num_workers={nw}) differs from the serial result", f"threads_differ:{g.steps[v.id]['op']}{z}"))
                        break
        finally:
            sys.setswitchinterval(old)
    for a, copy in srcs:
        ctx.count("sources_audited")
        same = np.array_equal(a, copy, equal_nan=True) if a.dtype.kind in "fc" else np.array_equal(a, copy)
        if not same:
            problems.append(("source_mutated", f"a NumPy array passed to from_array changed (shape {a.shape}, dtype {a.dtype})", "source_mutated"))
            break
    return problems, ntasks, len(orders)


def run_one(rng, ctx):
    big = ctx.tier == "thorough"
    G.SRC_LOG = []
    g = Prog(rng, max_extent=rng.choice([7, 9, 12]) if big else 7, max_size=4000, weights=WEIGHTS)
    g.grow(rng.randint(2, 9 if big else 7))
    srcs = list(G.SRC_LOG)
    tally_prog(g, ctx)
    non_leaf = [v for v, s in zip(g.vars, g.steps) if s["in"]]
    if not non_leaf:
        return
    v = non_leaf[-1]
    case = {"steps": g.closure(v.id)}
    ctx.current_case = case
    problems, ntasks, norders = check_program(g, v, ctx, srcs, big)
    ctx.count("programs_checked")
    ctx.mx("max_distinct_orders", norders)
    ctx.seen((tuple(map(tuple, g.signature(v.id))), norders), ntasks >= 6 and norders >= 3)
    tally_ops(case["steps"], ctx)
    if len(ctx.samples) < 2 and ntasks >= 6:
        ctx.sample({"steps": case["steps"], "tasks": ntasks, "distinct_orders": norders})
    for kind, msg, mech in problems:
        ctx.violation(kind, f"{msg}\n  program: {case['steps']}", case=case, mech=mech)


def replay_case(case, ctx):
    G.SRC_LOG = []
    try:
        g = Prog.replay(case["steps"])
    except ReplayRefused as e:
        ctx.violation("build_raises_on_replay", str(e), case=case, mech="replay_refused")
        return
    problems, _, _ = check_program(g, g.vars[-1], ctx, list(G.SRC_LOG), True)
    for kind, msg, mech in problems:
        ctx.violation(kind, msg, case=case, mech=mech)


def finalize(ctx):
    if ctx.counters.get("input_refingerprints", 0) == 0:
        ctx.inconc("the mutation monitor never re-fingerprinted an input")
    if ctx.counters.get("threaded_runs", 0) == 0:
        ctx.inconc("no threaded run happened")
