"""C09 - results do not depend on materialization history or planner configuration."""

from __future__ import annotations

import gc
import json
import os
import random
import subprocess
import weakref

import dask
import numpy as np

from vf.common import PY, REPO, VERIF, exc_site, msg_key, short_tb
from vf.gen import Prog, ReplayRefused, vsame
from vf.util import closure_has_zero, fresh, tally_prog

PROPERTY = "C09"
WORKERS = {"quick": 16, "thorough": 16}
CASES = {"quick": 60, "thorough": 360}
TIME = {"quick": 45, "thorough": 240}
CASE_TIMEOUT = 150
TECHNIQUE = (
    "runtime monitoring of long-lived processes: random histories of build / compute / optimize / persist / graph / drop+gc / rebuild "
    "actions over pools of programs sharing subtrees, each action under a sampled planner configuration (build under A, compute under B), "
    "every computed value compared with the history-free NumPy mirror; an instrumented _LOWER_CACHE and a SingletonExpr observer count "
    "the cache and dedup hits that make a history matter; a failing program is re-run alone in a fresh interpreter to tell a history or "
    "configuration effect from a plain C01 defect"
)
RULE = (
    "one case = a pool of 3-6 programs over common leaves and chains (G, shared subtrees) plus a random history of 12-40 actions "
    "(thorough 20-60): compute / x.optimize().compute / persist+compute / __dask_graph__ / dask.compute of two pool members / drop all "
    "references + gc.collect / rebuild the identical program (new objects, same names) / follow-on op on a pool member; each action runs "
    "under a configuration sampled from array.optimize-graph {T,F} x array.rechunk.threshold {1,4,32} x array.rechunk.degree-limit "
    "{2,3,100} x array.rechunk.method {None,tasks} x array.chunk-size {64B,1KiB,128MiB} x array.unify-chunks-policy {auto,coarse,refine} "
    "x array.unify-chunks-limit {None,64B,1KiB} x split_every {2,3,16}, and rebuilds happen under one configuration while the compute "
    "happens under another. The process lives for all cases of the worker, so the lowering cache is warm across pools and "
    "configurations. distinct = (action kind, config signature, root class); non-trivial = a compute that happened after >=1 lowering "
    "cache hit or dedup hit in the same history on a multi-block program"
)
ASSUMPTIONS = [
    "NumPy mirror is history-free by construction",
    "p2p rechunking needs distributed (absent): array.rechunk.method is sampled from {None, 'tasks'}",
    "a program that also fails alone in a fresh interpreter under the default configuration is C01's event and is not reported here",
]
WEIGHTS = {"#rechunk": 2.5, "#reduction": 1.5, "#index": 1.2, "#window": 1.2, "#combine": 1.3, "#linalg": 0.6}

CONFIG_SPACE = {
    "array.optimize-graph": [True, True, True, False],
    "array.rechunk.threshold": [1, 4, 32],
    "array.rechunk.degree-limit": [2, 3, 100],
    "array.rechunk.method": [None, None, "tasks"],
    "array.chunk-size": ["64B", "1KiB", "128MiB", "128MiB"],
    "array.unify-chunks-policy": ["auto", "auto", "coarse", "refine"],
    "array.unify-chunks-limit": [None, None, "64B", "1KiB"],
    "split_every": [2, 3, 16, 16],
}


def sample_config(rng, full=False):
    if not full and rng.random() < 0.25:
        return {}
    cfg = {}
    for k, vals in CONFIG_SPACE.items():
        if full or rng.random() < 0.5:
            cfg[k] = rng.choice(vals)
    return cfg


def cfg_sig(cfg):
    return ",".join(f"{k.split('.')[-1]}={v}" for k, v in sorted(cfg.items())) or "default"


class CountingCache(weakref.WeakValueDictionary):
    """The process-wide lowering cache, with hit counters (same semantics)."""

    hits = 0
    misses = 0

    def __getitem__(self, k):
        try:
            r = super().__getitem__(k)
        except KeyError:
            CountingCache.misses += 1
            raise
        CountingCache.hits += 1
        return r


DEDUP = {"hits": 0, "new": 0}


def setup(ctx):
    import dask_array._materialize as M
    from dask._expr import SingletonExpr

    if not isinstance(M._LOWER_CACHE, CountingCache):
        cc = CountingCache()
        cc.update(M._LOWER_CACHE)
        M._LOWER_CACHE = cc
    if not getattr(SingletonExpr, "_vf_observed", False):
        orig_new = SingletonExpr.__new__

        def observed_new(cls, *args, _determ_token=None, **kwargs):
            before = None
            inst = orig_new(cls, *args, _determ_token=_determ_token, **kwargs)
            try:
                if inst.__dict__.get("_vf_seen"):
                    DEDUP["hits"] += 1
                else:
                    inst.__dict__["_vf_seen"] = True
                    DEDUP["new"] += 1
            except Exception:
                pass
            return inst

        try:
            SingletonExpr.__new__ = staticmethod(observed_new)
            SingletonExpr._vf_observed = True
        except Exception:
            pass


ISO_CODE = r"""
import json, sys, warnings
warnings.simplefilter("ignore")
import numpy as np
np.seterr(all="ignore")
import dask
dask.config.set(scheduler="sync")
from vf.gen import Prog, vsame
case = json.load(sys.stdin)
g = Prog.replay(case["steps"])
v = g.vars[case["x"]]
try:
    if case.get("y") is not None:
        w = g.vars[case["y"]]
        a, b = dask.compute(v.da, w.da)
        why = vsame(v, a) or vsame(w, b)
    else:
        why = vsame(v, v.da.compute())
    print("ISO:" + ("ok" if why is None else "mismatch:" + why))
except Exception as e:
    print("ISO:raises:" + type(e).__name__ + ":" + str(e)[:200])
"""


def isolated_verdict(steps, x, y=None):
    """Run the sub-program alone in a fresh interpreter under the default configuration (the pair through dask.compute
    when the failing action computed two collections together)."""
    env = dict(os.environ)
    env["PYTHONPATH"] = f"{VERIF}:{REPO}"
    env["PYTHONHASHSEED"] = "0"
    try:
        p = subprocess.run([PY, "-c", ISO_CODE], input=json.dumps({"steps": steps, "x": x, "y": y}), capture_output=True, text=True, timeout=120, env=env, cwd=VERIF)
    except subprocess.TimeoutExpired:
        return "timeout"
    for ln in p.stdout.splitlines():
        if ln.startswith("ISO:"):
            return ln[4:]
    return "crashed:" + p.stderr[-200:]


class Pool:
    """Programs sharing leaves; handles to live collections that actions create and drop."""

    def __init__(self, g, members):
        self.g = g
        self.members = members  # var ids
        self.live = {}  # var id -> list of collections held


def build_pool(rng, big):
    g = Prog(rng, max_extent=rng.choice([7, 9, 12]) if big else 7, max_size=5000 if big else 2500, weights=WEIGHTS)
    g.grow(rng.randint(5, 12 if big else 9), nleaves=rng.choice([1, 2, 2, 3]))
    non_leaf = [v.id for v, s in zip(g.vars, g.steps) if s["in"] and v.da is not None]
    if len(non_leaf) < 2:
        return None
    k = min(len(non_leaf), rng.randint(3, 6))
    members = sorted(rng.sample(non_leaf, k))
    return Pool(g, members)


def do_action(pool, act, ctx, problems, hist_state):
    """Execute one action; append (kind, msg, mech, var id) to problems on a mismatch."""
    g = pool.g
    kind = act["kind"]
    cfg = act.get("cfg", {})
    vid = act.get("var")
    v = g.vars[vid] if vid is not None else None

    def judge(val, label, var=v):
        ctx.count("computes_compared")
        hist_state["computes"] += 1
        why = vsame(var, val)
        sig = (kind, cfg_sig(cfg), type(var.da.expr).__name__)
        try:
            multi = int(np.prod(var.da.numblocks)) >= 2
        except Exception:
            multi = False
        warm = (CountingCache.hits - hist_state["hits0"]) + (DEDUP["hits"] - hist_state["dedup0"]) > 0
        ctx.seen(sig, warm and multi and var.np.size > 0)
        if why:
            problems.append((f"{label}_mismatch", f"action {act} -> {why}", f"history:{kind}:mismatch:{why.split()[0]}", var.id, act.get("var2") if kind == "compute_pair" else None))

    try:
        with dask.config.set(cfg):
            if kind == "compute":
                judge(fresh(v.da).compute(), "compute")
            elif kind == "compute_same_object":
                judge(v.da.compute(), "compute")
            elif kind == "optimize_compute":
                o = v.da.optimize()
                pool.live.setdefault(vid, []).append(o)
                judge(o.compute(), "optimize")
            elif kind == "persist_compute":
                p = fresh(v.da).persist()
                pool.live.setdefault(vid, []).append(p)
                with dask.config.set(act.get("cfg2", {})):
                    judge(p.compute(), "persist")
            elif kind == "graph_then_compute":
                x = fresh(v.da)
                x.__dask_graph__()
                pool.live.setdefault(vid, []).append(x)
                with dask.config.set(act.get("cfg2", {})):
                    judge(x.compute(), "graph_then_compute")
            elif kind == "compute_pair":
                w = g.vars[act["var2"]]
                a, b = dask.compute(fresh(v.da), fresh(w.da))
                judge(a, "pair")
                judge(b, "pair", w)
            elif kind == "rebuild":
                # identical program, new objects (same names -> singleton dedup and lowering-cache hits); built under cfg, computed under cfg2
                sub = g.closure(vid)
                g2 = Prog.replay(sub)
                x = g2.vars[-1].da
                pool.live.setdefault(vid, []).append(x)
                ctx.count("rebuilds")
                # chunks="auto" leaves resolve against the configuration in force NOW, whatever was built earlier
                for st_, var_ in zip(g2.steps, g2.vars):
                    if st_["op"] == "from_array" and st_["p"].get("auto") and var_.da is not None:
                        from dask_array._core_utils import normalize_chunks

                        want = normalize_chunks("auto", tuple(st_["p"]["shape"]), dtype=np.dtype(st_["p"]["dtype"]))
                        ctx.count("auto_chunk_leaves_checked")
                        if tuple(var_.da.chunks) != tuple(want):
                            problems.append(("rebuild_chunks_follow_history", f"from_array(chunks='auto') rebuilt under {act.get('cfg')} has chunks {var_.da.chunks}; the configuration in force gives {want} (an earlier build under another array.chunk-size is still alive)", "history:rebuild:auto_chunks_follow_an_earlier_configuration", vid, None))
                            break
                with dask.config.set(act.get("cfg2", {})):
                    judge(x.compute(), "rebuild")
            elif kind == "follow_on":
                n0 = len(g.steps)
                if "steps_added" in act:
                    f = None
                    for st in act["steps_added"]:
                        f = g.apply(st["op"], st["in"], st["p"])
                        if f is None:
                            ctx.count("follow_on_refused_on_replay")
                            return
                else:
                    f = g.step_on(v)
                    if f is None:
                        ctx.count("follow_on_not_generated")
                        del g.vars[n0:], g.steps[n0:]
                        return
                    act["steps_added"] = [dict(st) for st in g.steps[n0:]]
                act["new_var"] = f.id
                with dask.config.set(act.get("cfg2", {})):
                    judge(f.da.compute(), "follow_on", f)
            elif kind == "drop_gc":
                pool.live.clear()
                gc.collect()
                ctx.count("drops")
            else:
                raise ValueError(kind)
    except ReplayRefused:
        ctx.count("rebuild_refused")
    except Exception as e:
        var = v
        if kind == "follow_on" and act.get("new_var") is not None:
            var = g.vars[act["new_var"]]
        mech_ = f"history:{kind}:raise:{type(e).__name__}:{exc_site(e)}:{msg_key(e)}"
        if "Dimension_has_blocks" in mech_:
            # one mechanism whatever the action: a node that recorded its input's block count (explicit chunks=) meets an
            # input unified / re-chunked under another configuration than the one it was built under
            mech_ = "history:baked_block_count_meets_another_configuration:Dimension_has_blocks"
        problems.append((f"{kind}_raises", f"action {act} raised {short_tb(e)}", mech_, var.id if var is not None else None, act.get("var2") if kind == "compute_pair" else None))


ACTIONS = ["compute", "compute", "compute_same_object", "optimize_compute", "persist_compute", "graph_then_compute", "compute_pair", "rebuild", "rebuild", "follow_on", "drop_gc"]


def gen_history(pool, rng, n):
    acts = []
    for _ in range(n):
        kind = rng.choice(ACTIONS)
        a = {"kind": kind, "cfg": sample_config(rng), "cfg2": sample_config(rng)}
        if kind != "drop_gc":
            a["var"] = rng.choice(pool.members)
        if kind == "compute_pair":
            a["var2"] = rng.choice(pool.members)
        acts.append(a)
    return acts


def run_history(pool, acts, ctx):
    problems = []
    st = {"hits0": CountingCache.hits, "dedup0": DEDUP["hits"], "computes": 0}
    for a in acts:
        ctx.tab("actions", a["kind"])
        for k, val in a.get("cfg", {}).items():
            ctx.tab("config_values", f"{k}={val}")
        do_action(pool, a, ctx, problems, st)
        if a["kind"] == "follow_on" and a.get("new_var") is not None and a["new_var"] not in pool.members and len(pool.members) < 10:
            pool.members.append(a["new_var"])
    ctx.count("lower_cache_hits", CountingCache.hits - st["hits0"])
    ctx.count("dedup_hits", DEDUP["hits"] - st["dedup0"])
    return problems


def report(pool, acts, problems, ctx, case):
    seen = set()
    for kind, msg, mech, vid, vid2 in problems:
        if mech in seen:
            continue
        seen.add(mech)
        g = pool.g
        if vid is not None:
            z = "|zero_size" if closure_has_zero(g, g.vars[vid]) else ""
            if vid2 is not None:
                steps, remap = g.closure_multi([vid, vid2])
                iso = isolated_verdict(steps, remap[vid], remap[vid2])
            else:
                steps = g.closure(vid)
                iso = isolated_verdict(steps, len(steps) - 1)
            ctx.tab("isolated_verdicts", iso.split(":")[0])
            if not iso.startswith("ok"):
                # the program fails on its own: not a history/configuration effect
                ctx.count("fails_alone_left_to_C01")
                continue
        else:
            z = ""
        ctx.violation(kind, f"{msg}\n  (the same program computes correctly alone in a fresh interpreter)\n  history: {[a['kind'] for a in acts]}", case=case, mech=mech + z)


def run_one(rng, ctx):
    big = ctx.tier == "thorough"
    pool = None
    for _ in range(5):
        pool = build_pool(rng, big)
        if pool is not None:
            break
    if pool is None:
        return
    tally_prog(pool.g, ctx)
    acts = gen_history(pool, rng, rng.randint(20, 60) if big else rng.randint(12, 40))
    base_steps = [dict(s) for s in pool.g.steps]
    case = {"steps": base_steps, "members": list(pool.members), "actions": acts}
    ctx.current_case = case
    problems = run_history(pool, acts, ctx)
    ctx.count("histories")
    ctx.mx("max_history_len", len(acts))
    if len(ctx.samples) < 2:
        ctx.sample({"pool_ops": [s["op"] for s in base_steps], "members": case["members"], "history": [(a["kind"], cfg_sig(a.get("cfg", {}))) for a in acts[:12]]})
    report(pool, acts, problems, ctx, case)
    pool.live.clear()


def replay_case(case, ctx):
    try:
        g = Prog.replay(case["steps"])
    except ReplayRefused as e:
        ctx.violation("build_raises_on_replay", str(e), case=case, mech="replay_refused")
        return
    pool = Pool(g, list(case["members"]))
    acts = [dict(a) for a in case["actions"]]
    problems = run_history(pool, acts, ctx)
    report(pool, acts, problems, ctx, case)


def finalize(ctx):
    if ctx.counters.get("computes_compared", 0) == 0:
        ctx.inconc("no compute was compared")
    if ctx.counters.get("lower_cache_hits", 0) == 0:
        ctx.inconc("the lowering cache was never hit: histories did not exercise the shared state")
    if ctx.counters.get("dedup_hits", 0) == 0:
        ctx.inconc("no singleton de-duplication hit was observed")


RULE += (
    " chunks='auto' leaves: a rebuild's chunks must equal what the configuration in force resolves to, whatever was built earlier."
)
