"""C17 - chunk unification aligns operands without changing values or inflating blocks (observer on the real function)."""

from __future__ import annotations

import importlib
import math
import random

import dask
import numpy as np
import toolz
from dask.utils import parse_bytes

from vf.common import exc_site, msg_key, short_tb
from vf.gen import leaf_values, rand_composition
from vf.oracles import same

PROPERTY = "C17"
WORKERS = {"quick": 16, "thorough": 16}
CASES = {"quick": 2000, "thorough": 14000}
TIME = {"quick": 45, "thorough": 240}
CASE_TIMEOUT = 60
TECHNIQUE = (
    "runtime monitoring: an observer wrapped around the real unify_chunks_expr (re-bound in every module that imported it) checks each "
    "call's inputs against its outputs - one layout per index label for all non-broadcast operand axes, split-only boundaries under the "
    "refine policy, no operand block larger than max(array.unify-chunks-limit, its own largest block) - while directed elemwise / "
    "blockwise / where programs over 2-4 operands are compared with NumPy under every policy and limit"
)
RULE = (
    "2-4 operands of rank 0-4 with broadcasting on leading and size-1 axes; per shared axis the operands' layouts are drawn as nested "
    "(one refines the other), interleaved, shifted by a sliver (roll pattern), equal, single-chunk, with zero-width chunks, uneven with the "
    "small chunk first; dtypes u1..c16 chosen to put byte ratios on both sides of the merge cost ratio; policies auto / coarse / refine x "
    "array.unify-chunks-limit None / 64 B / 1 KiB / 512 MiB; operations +, where, blockwise(align_arrays=True) with a contracted index, "
    "ufunc with where=/out= operands (map_blocks passes align_arrays=False by design, like dask.array, and is not part of the workload). distinct = (policy, limit, operand count, layout relation, op); non-trivial = the call "
    "changed at least one operand's layout"
)
ASSUMPTIONS = ["NumPy as ground truth for values", "axes with unknown (NaN) sizes are exempt from the boundary and size clauses"]

MODULES = ["dask_array._expr", "dask_array._blockwise", "dask_array._overlap", "dask_array.stacking._concatenate", "dask_array.stacking._stack", "dask_array.routines._broadcast"]
OBS = {"calls": 0, "changed": 0, "problems": [], "directions": {}}


def bounds(chunks):
    out, s = set(), 0
    for c in chunks:
        s += c
        out.add(s)
    return out


def has_nan(chunks):
    return any(isinstance(c, float) and c != c for c in chunks)


def largest_block_bytes(arr, chunks=None):
    chunks = arr.chunks if chunks is None else chunks
    n = arr.dtype.itemsize
    for ax, c in enumerate(chunks):
        if arr.shape[ax] > 1 and len(c):
            n *= max(c)
    return n


def setup(ctx):
    import dask_array._expr as E

    real = E.unify_chunks_expr
    if getattr(real, "_vf", False):
        return

    def observed(*args, **kwargs):
        out = real(*args, **kwargs)
        try:
            judge(args, out)
        except Exception as e:  # the observer must never change behaviour
            OBS["problems"].append(("observer_error", short_tb(e, 6), "observer_error"))
        return out

    observed._vf = True
    for m in MODULES:
        try:
            mod = importlib.import_module(m)
        except Exception:
            continue
        if getattr(mod, "unify_chunks_expr", None) is real:
            mod.unify_chunks_expr = observed


def judge(args, out):
    from dask_array._expr import ArrayExpr

    chunkss, arrays, changed = out
    arginds = list(toolz.partition(2, args))
    if not arginds or all(ind is None for _, ind in arginds):
        return
    OBS["calls"] += 1
    policy = dask.config.get("array.unify-chunks-policy", "auto")
    limit = dask.config.get("array.unify-chunks-limit", None)
    limit = parse_bytes(limit) if isinstance(limit, str) else limit
    any_changed = False
    for (a, ind), b in zip(arginds, arrays):
        if ind is None or ind == () or not isinstance(a, ArrayExpr) or not isinstance(b, ArrayExpr):
            continue
        try:
            ach, bch = a.chunks, b.chunks
        except Exception:
            continue
        if ach != bch:
            any_changed = True
        for n, j in enumerate(ind):
            target = chunkss.get(j)
            if target is None:
                continue
            if has_nan(bch[n]) or has_nan(target):
                continue
            if a.shape[n] == 1:
                if tuple(bch[n]) != (1,):
                    OBS["problems"].append(("broadcast_axis_rechunked", f"size-1 axis {n} of an operand carries chunks {bch[n]} after unification (label {j} -> {target})", "broadcast_axis_not_(1,)"))
                continue
            if tuple(bch[n]) != tuple(target):
                OBS["problems"].append(("operands_not_aligned", f"policy {policy}: operand axis {n} (label {j}) has chunks {bch[n]} after unification, the common layout is {target} (was {ach[n]})", f"not_aligned:{policy}"))
            if policy == "refine" and not has_nan(ach[n]) and not bounds(ach[n]) <= bounds(target):
                OBS["problems"].append(("refine_merged_blocks", f"policy refine: label {j} unified to {target}, which merges blocks of an operand chunked {ach[n]}", "refine_merges"))
        # size clause
        if any(has_nan(c) for c in ach) or any(has_nan(c) for c in bch):
            continue
        before, after = largest_block_bytes(a), largest_block_bytes(b)
        if after > before:
            key = "grew"
            if limit is not None and after > max(limit, before):
                OBS["problems"].append(("block_inflated", f"policy {policy}, limit {limit}: an operand's largest block grew from {before} B to {after} B (chunks {ach} -> {bch})", f"inflated_beyond_limit:{policy}"))
        else:
            key = "split_or_same" if ach != bch else "same"
        OBS["directions"][f"{policy}|{key}"] = OBS["directions"].get(f"{policy}|{key}", 0) + 1
    if any_changed:
        OBS["changed"] += 1


def layout(rng, n, relation, base):
    """A chunking of an axis of length n in `relation` to the chunking `base`."""
    if n == 0:
        return (0,)
    if relation == "equal":
        return tuple(base)
    if relation == "single":
        return (n,)
    if relation == "nested_finer":
        out = []
        for c in base:
            if c <= 1 or rng.random() < 0.4:
                out.append(c)
            else:
                k = rng.randint(1, c - 1)
                out.extend([k, c - k])
        return tuple(out)
    if relation == "nested_coarser":
        out, i = [], 0
        base = list(base)
        while i < len(base):
            k = rng.randint(1, 3)
            out.append(sum(base[i : i + k]))
            i += k
        return tuple(out)
    if relation == "shifted":
        if len(base) < 2 or base[0] < 2:
            return tuple(rand_composition(rng, n))
        s = rng.randint(1, max(1, base[0] - 1))
        return (s,) + tuple(base[1:-1]) + ((base[0] - s + base[-1],) if len(base) > 1 else ())
    if relation == "zero_width":
        b = list(rand_composition(rng, n))
        b.insert(rng.randint(0, len(b)), 0)
        return tuple(b)
    if relation == "small_first":
        if n < 3:
            return (n,)
        k = rng.randint(1, max(1, n // 3))
        return (k, n - k)
    return tuple(rand_composition(rng, n))


RELATIONS = ["equal", "single", "nested_finer", "nested_coarser", "shifted", "zero_width", "small_first", "interleaved"]


def gen_case(rng, big):
    nd = rng.choice([1, 2, 2, 3, 3, 4])
    mx = 40 if big else 16
    shape = [rng.choice([1, rng.randint(2, mx if nd <= 2 else max(3, mx // nd))]) if rng.random() < 0.15 else rng.randint(2, mx if nd <= 2 else max(3, mx // nd)) for _ in range(nd)]
    nops = rng.randint(2, 4)
    base = [list(rand_composition(rng, n)) for n in shape]
    ops = []
    for k in range(nops):
        rank = nd if k == 0 or rng.random() < 0.6 else rng.randint(0, nd)
        oshape = shape[nd - rank :]
        chunks, rels = [], []
        for i, n in enumerate(oshape):
            if k > 0 and n > 1 and rng.random() < 0.2:
                oshape[i] = 1
                n = 1
            rel = "equal" if k == 0 else rng.choice(RELATIONS)
            rels.append(rel)
            chunks.append(list(layout(rng, n, rel, base[nd - rank + i]) if n > 1 else (1,) if rng.random() < 0.9 else (1, 0)))
        ops.append({"shape": list(oshape), "chunks": chunks, "dtype": rng.choice(["u1", "i4", "f8", "f8", "c16", "f4"]), "seed": rng.randrange(10**6), "rels": rels})
    return {
        "ops": ops, "op": rng.choice(["add", "add", "where", "blockwise", "blockwise", "where_out", "blockwise_perm", "outer_pairs"]),
        "policy": rng.choice(["auto", "auto", "coarse", "refine"]), "limit": rng.choice([None, None, "64B", "1KiB", "512MiB"]),
    }


def k_sum_all(*blocks):
    out = blocks[0]
    for b in blocks[1:]:
        out = out + b
    return out


def k_add_t(a, b):
    return a + b.T


def check_case(p, ctx):
    import dask_array as da

    OBS["problems"] = []
    c0, ch0 = OBS["calls"], OBS["changed"]
    problems = []
    cfg = {"array.unify-chunks-policy": p["policy"], "array.unify-chunks-limit": p["limit"]}
    arrs, xs = [], []
    for o in p["ops"]:
        a = leaf_values(tuple(o["shape"]), o["dtype"], "perm", o["seed"])
        arrs.append(a)
        xs.append(da.from_array(a, chunks=tuple(tuple(c) for c in o["chunks"])))
    op = p["op"]
    label = f"{op}|{p['policy']}|{p['limit']}"
    with dask.config.set(cfg), np.errstate(all="ignore"):
        try:
            if op == "add":
                ev = arrs[0]
                y = xs[0]
                for a, x in zip(arrs[1:], xs[1:]):
                    ev = ev + a
                    y = y + x
            elif op == "where":
                c = arrs[0].real > 0
                other = arrs[2] if len(arrs) > 2 else 0
                ev = np.where(c, arrs[1], other)
                y = da.where(xs[0].real > 0, xs[1], xs[2] if len(xs) > 2 else 0)
            elif op == "where_out":
                shp = np.broadcast_shapes(*[a.shape for a in arrs[:2]])
                o_np = np.broadcast_to(arrs[-1].real.astype("f8"), shp).copy() if np.broadcast_shapes(arrs[-1].shape, shp) == shp else np.zeros(shp)
                m_np = np.broadcast_to(arrs[0].real > 0, shp)
                ev = o_np.copy()
                np.add(arrs[0].real.astype("f8"), arrs[1].real.astype("f8"), where=m_np, out=ev)
                o_da = da.from_array(o_np, chunks=tuple(rand_composition(random.Random(p["ops"][0]["seed"]), n) for n in shp))
                m_da = da.from_array(np.ascontiguousarray(m_np), chunks=tuple(rand_composition(random.Random(p["ops"][1]["seed"]), n) for n in shp))
                y = da.add(xs[0].real.astype("f8"), xs[1].real.astype("f8"), where=m_da, out=o_da)
                y = o_da
            elif op == "outer_pairs":
                # two index labels, each with its own fine/coarse pair of 1-d operands (no operand spans both labels):
                # einsum('i,i,j,j->ij', a, b, c, d); both merges may exceed the limit
                r_ = random.Random(p["ops"][0]["seed"])
                ni, nj = r_.randint(8, 40), r_.randint(8, 40)

                def pair(n):
                    fine = tuple(rand_composition(r_, n))
                    coarse, acc = [], 0
                    for c in fine:  # nest-coarsen: merge runs of the fine chunks
                        acc += c
                        if r_.random() < 0.25:
                            coarse.append(acc)
                            acc = 0
                    if acc:
                        coarse.append(acc)
                    return fine, tuple(coarse)

                (fi, ci), (fj, cj) = pair(ni), pair(nj)
                dts = [r_.choice(["f8", "c16"]) for _ in range(4)]
                arrs = [leaf_values((n,), dt, "perm", p["ops"][0]["seed"] + k) for k, (n, dt) in enumerate(zip((ni, ni, nj, nj), dts))]
                xs = [da.from_array(a_, chunks=(ch,)) for a_, ch in zip(arrs, (fi, ci, fj, cj))]
                y = da.einsum("i,i,j,j->ij", *xs)
                ev = np.einsum("i,i,j,j->ij", *arrs)
            elif op == "blockwise_perm":
                # operands whose index tuples are permutations of one another: x over 'ij', y over 'ji' (square arrays);
                # half of the time both carry the SAME chunks tuple while the two axes are chunked differently
                r_ = random.Random(p["ops"][0]["seed"])
                n = r_.randint(2, 8)
                cx0, cx1 = tuple(rand_composition(r_, n)), tuple(rand_composition(r_, n))
                cy = (cx0, cx1) if r_.random() < 0.5 else (tuple(rand_composition(r_, n)), tuple(rand_composition(r_, n)))
                a0 = leaf_values((n, n), "f8", "perm", p["ops"][0]["seed"])
                a1 = leaf_values((n, n), "f8", "perm", p["ops"][0]["seed"] + 1)
                arrs, xs = [a0, a1], [da.from_array(a0, chunks=(cx0, cx1)), da.from_array(a1, chunks=cy)]
                y = da.blockwise(k_add_t, "ij", xs[0], "ij", xs[1], "ji", dtype="f8", align_arrays=True)
                ev = a0 + a1.T
            elif op == "blockwise":
                full = [x for x in xs if x.ndim == xs[0].ndim][:3]
                farr = [a for a in arrs if a.ndim == arrs[0].ndim][:3]
                if xs[0].ndim < 1 or len(full) < 2 or len({a.shape for a in farr}) != 1:
                    ctx.count("not_applicable")
                    return problems, False
                ind = tuple(range(xs[0].ndim))
                args = []
                for x in full:
                    args += [x, ind]
                y = da.blockwise(k_sum_all, ind, *args, dtype=np.result_type(*[a.dtype for a in farr]), align_arrays=True)
                ev = farr[0]
                for a in farr[1:]:
                    ev = ev + a
            else:
                same_shape = [i for i, a in enumerate(arrs) if a.shape == arrs[0].shape][:3]
                if len(same_shape) < 2:
                    ctx.count("not_applicable")
                    return problems, False
                y = da.map_blocks(k_sum_all, *[xs[i] for i in same_shape], dtype=np.result_type(*[arrs[i].dtype for i in same_shape]))
                ev = arrs[same_shape[0]]
                for i in same_shape[1:]:
                    ev = ev + arrs[i]
        except Exception as e:
            ctx.tab("refused", f"{op}:{type(e).__name__}:{msg_key(e)}")
            return problems, False
        try:
            got = y.compute()
        except Exception as e:
            problems.append(("compute_raises", f"{label}: {short_tb(e)}", f"{op}:raise:{type(e).__name__}:{exc_site(e)}:{msg_key(e)}"))
            got = None
    if got is not None:
        ctx.count("results_compared")
        why = same(ev, got, 1 if np.asarray(ev).dtype.kind in "fc" and op != "where" else 0, float(np.abs(ev).max()) if np.size(ev) else 1.0)
        if why:
            problems.append(("values_differ", f"{label}: {why}", f"{op}:values:{why.split()[0]}"))
    for kind, msg, mech in OBS["problems"]:
        problems.append((kind, f"{label}: {msg}", mech))
    ctx.count("unify_calls_observed", OBS["calls"] - c0)
    return problems, OBS["changed"] > ch0


def run_one(rng, ctx):
    p = gen_case(rng, ctx.tier == "thorough")
    ctx.current_case = p
    problems, nontrivial = check_case(p, ctx)
    ctx.count("cases_checked")
    rels = tuple(sorted({r for o in p["ops"] for r in o["rels"]}))
    ctx.seen((p["policy"], p["limit"], len(p["ops"]), rels, p["op"]), nontrivial)
    ctx.tab("policy_x_limit", f"{p['policy']}|{p['limit']}")
    if len(ctx.samples) < 2 and nontrivial:
        ctx.sample(p)
    seen = set()
    for kind, msg, mech in problems:
        if mech in seen:
            continue
        seen.add(mech)
        ctx.violation(kind, f"{msg}\n  case: {p}", case=p, mech=mech)


def replay_case(case, ctx):
    problems, _ = check_case(case, ctx)
    seen = set()
    for kind, msg, mech in problems:
        if mech not in seen:
            seen.add(mech)
            ctx.violation(kind, msg, case=case, mech=mech)


def finalize(ctx):
    for k, v in OBS["directions"].items():
        ctx.tab("directions", k, v)
    if ctx.counters.get("unify_calls_observed", 0) == 0:
        ctx.inconc("the observer on unify_chunks_expr never saw a call")
    if ctx.counters.get("results_compared", 0) == 0:
        ctx.inconc("no result was compared")
