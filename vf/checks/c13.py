"""C13 - slice algebra helpers are exact (runtime contracts on the real helpers + exhaustive driver)."""

from __future__ import annotations

import itertools
import random

import numpy as np

from vf import contracts as K
from vf.common import now

PROPERTY = "C13"
WORKERS = {"quick": 16, "thorough": 16}
TIME = {"quick": 60, "thorough": 240}
BOX = {"quick": dict(nmax=6, bound=8, cn=4, cb=6), "thorough": dict(nmax=8, bound=10, cn=6, cb=9)}
EXHAUSTIVE = "every (n, chunking of n, slice) with n<=nmax, start/stop in {None} U [-bound,bound], step in {None,+-1,+-2,+-3} (quick: nmax=6,bound=8; thorough: nmax=8,bound=10), all ordered pairs of such slices for _compose_slices (quick n<=4,bound 6; thorough n<=6,bound 9) and of non-negative slices/ints for fuse_slice"
TECHNIQUE = "runtime contracts (icontract postconditions with brute-force range() references) on the real slice helpers, driven exhaustively over a small box and randomly beyond it, and left active while real indexing programs run"
RULE = (
    "icontract postconditions on normalize_slice, fuse_slice, _compose_slices, _slice_1d, new_blockdim, _compute_sliced_chunks, "
    "posify_index compare every call with list(range(n))[...] references. Driver: " + EXHAUSTIVE + "; plus random cases with n<=60 "
    "and real call sites reached through x[idx] / from_array regions / store regions on dask_array collections. distinct = distinct "
    "(helper, arguments) tuples; non-trivial = selection non-empty and (chunking has >=2 blocks or a second index is involved)"
)
ASSUMPTIONS = ["Python range()/list slicing is the reference for 1-D positions; NumPy basic indexing for tuple fusion"]
STEPS = (None, 1, 2, 3, -1, -2, -3)


def compositions(n):
    if n == 0:
        yield (0,)
        return
    for bits in range(1 << (n - 1)):
        out, cur = [], 1
        for i in range(n - 1):
            if bits >> i & 1:
                out.append(cur)
                cur = 1
            else:
                cur += 1
        out.append(cur)
        yield tuple(out)


def all_slices(bound):
    vals = [None] + list(range(-bound, bound + 1))
    for a in vals:
        for b in vals:
            for s in STEPS:
                yield slice(a, b, s)


def report(ctx):
    for v in K.flush_to(ctx):
        ctx.violation(v["mech"].split(":")[0], v["msg"], case={"fn": v["fn"], "call": v["call"]}, mech=v["mech"])


def mine(ctx, i):
    return i % ctx.nworkers == ctx.index


def run_all(ctx):
    K.install("slicing")
    import dask_array as da
    from dask_array.io import _from_array  # noqa: F401
    from dask_array.slicing import _basic, _utils

    box = BOX[ctx.tier]
    nmax, bound = box["nmax"], box["bound"]
    slices = list(all_slices(bound))
    i = 0
    # -- normalize_slice, then the plan for the normalized slice over every chunking
    for n in range(nmax + 1):
        comps = list(compositions(n))
        # ... and the same layouts with one zero-width chunk inserted anywhere (boolean masks leave such chunks behind)
        comps += [c[:k] + (0,) + c[k:] for c in comps if n and len(c) <= 3 for k in range(len(c) + 1)]
        for s in slices:
            i += 1
            if not mine(ctx, i):
                continue
            ns = _utils.normalize_slice(s, n)
            sel = range(n)[s]
            for lengths in comps:
                _utils._slice_1d(n, lengths, ns)
                _utils.new_blockdim(n, list(lengths), ns)
                _basic._compute_sliced_chunks(lengths, s, n)
                ctx.evaluations += 1
                if len(sel) and len(lengths) > 1:
                    ctx.seen(("plan", n, lengths, s.start, s.stop, s.step))
            if len(ctx.samples) < 2 and len(sel) > 1:
                ctx.sample({"helper": "_slice_1d", "n": n, "lengths": list(comps[-1]), "index": K.enc(ns), "plan": {str(k): K.enc(v) for k, v in _utils._slice_1d(n, comps[-1], ns).items()}})
        for k in range(-n - 1, n + 1):
            _utils.posify_index(n, k)
            if 0 <= k < n:
                for lengths in comps:
                    _utils._slice_1d(n, lengths, k)
    report(ctx)
    # -- pairs: _compose_slices (any signs)
    cn, cb = box["cn"], box["cb"]
    cs = list(all_slices(cb))
    for n in range(cn + 1):
        for oi, outer in enumerate(cs):
            if not mine(ctx, oi + n):
                continue
            for inner in cs:
                _basic._compose_slices(outer, inner, n)
                ctx.evaluations += 1
            if len(range(n)[outer]) > 1:
                ctx.seen(("compose", n, outer.start, outer.stop, outer.step))
        if now() > ctx.deadline:
            ctx.inconc("exhaustive box not completed within the time cap")
            report(ctx)
            return
    report(ctx)
    # -- pairs: fuse_slice (non-negative domain; negative ones must raise NotImplementedError)
    fvals = [None] + list(range(0, bound + 1))
    fs = [slice(a, b, st) for a in fvals for b in fvals for st in (None, 1, 2, 3)]
    second = fs + list(range(0, bound + 1)) + [[0, 2], [1]]
    for ai, a in enumerate(fs):
        if not mine(ctx, ai):
            continue
        for b in second:
            try:
                _utils.fuse_slice(a, b)
            except NotImplementedError:
                ctx.count("fuse_slice_refused")
            ctx.evaluations += 1
        ctx.seen(("fuse", a.start, a.stop, a.step))
    # negative operands: refused or exact (contract decides)
    r = random.Random(f"{ctx.seed}:{ctx.index}:neg")
    for _ in range(3000):
        a = slice(r.choice([None, -3, -1, 0, 2]), r.choice([None, -2, 5, 9]), r.choice([None, 1, 2, -1]))
        b = r.choice([slice(r.choice([None, -2, 0, 1]), r.choice([None, -1, 4]), r.choice([None, 1, -1, 2])), r.randint(-3, 3)])
        try:
            _utils.fuse_slice(a, b)
        except NotImplementedError:
            ctx.count("fuse_slice_refused")
        ctx.evaluations += 1
    report(ctx)
    ctx.count("exhaustive_box_completed")
    # -- tuple fusion and random larger cases
    r = random.Random(f"{ctx.seed}:{ctx.index}")
    nrand = 4000 if ctx.tier == "quick" else 200000

    def rs(n, neg=True):
        lo = -n - 3 if neg else 0
        return slice(r.choice([None, r.randint(lo, n + 3)]), r.choice([None, r.randint(lo, n + 3)]), r.choice(STEPS if neg else (None, 1, 2, 3)))

    for it in range(nrand):
        if it % 256 == 0 and now() > ctx.deadline:
            ctx.count("random_phase_stopped_by_time_cap")
            break
        n = r.randint(0, 60)
        s = rs(n)
        lengths = tuple(_rand_comp(r, n))
        ns = _utils.normalize_slice(s, n)
        _utils._slice_1d(n, lengths, ns)
        _utils.new_blockdim(n, list(lengths), ns)
        _basic._compute_sliced_chunks(lengths, s, n)
        _basic._compose_slices(s, rs(n), n)
        ctx.evaluations += 1
        ctx.seen(("rand", n, lengths, s.start, s.stop, s.step), len(range(n)[s]) > 0 and len(lengths) > 1)
        # tuple fusion
        a = tuple(r.choice([rs(6, False), rs(6, False), r.randint(0, 3)]) for _ in range(r.randint(1, 3)))
        b = tuple(r.choice([rs(6, False), r.randint(0, 2), None, [0, 1]]) for _ in range(r.randint(0, 3)))
        try:
            _utils.fuse_slice(a, b)
        except NotImplementedError:
            ctx.count("fuse_slice_refused")
        except Exception as e:
            ctx.count(f"fuse_slice_tuple_raised:{type(e).__name__}")
    report(ctx)
    # -- real call sites: indexing collections (contracts stay on)
    import dask

    nprog = 300 if ctx.tier == "quick" else 5000
    for it in range(nprog):
        if it % 32 == 0 and now() > ctx.deadline:
            break
        n = r.randint(1, 12)
        m = r.randint(1, 5)
        a = np.arange(n * m).reshape(n, m)
        x = da.from_array(a, chunks=(tuple(_rand_comp(r, n)), tuple(_rand_comp(r, m))))
        try:
            y = x[rs(n), rs(m)]
            if r.random() < 0.5:
                y = y[rs(y.shape[0]), rs(y.shape[1])]
            y.chunks
            y.compute()
            ctx.count("indexing_programs")
        except Exception:
            ctx.count("indexing_program_raised")
    report(ctx)


def _rand_comp(r, n):
    if n == 0:
        return [0]
    out = []
    left = n
    while left > 0:
        c = r.randint(1, max(1, min(left, max(2, n // 2))))
        out.append(c)
        left -= c
    return out


def replay_case(case, ctx):
    K.install("slicing")
    import importlib

    call = [K.dec(c) if isinstance(c, list) or c in ("N", "nan") else c for c in case["call"]]
    fn = case["fn"]
    modname = next(m for m, f, _ in K.SLICING if f == fn)
    f = getattr(importlib.import_module(modname), fn)
    if fn == "fuse_slice":
        a, b = call[0], call[1]
        a = list(a) if isinstance(case["call"][0], list) and case["call"][0][:1] == ["l"] else a
        f(a, b)
    elif fn in ("_slice_1d", "new_blockdim"):
        f(call[0], list(call[1]), call[2])
    elif fn == "_compute_sliced_chunks":
        f(tuple(call[0]), call[1], call[2])
    else:
        f(*call)
    report(ctx)


def finalize(ctx):
    for fn in ("normalize_slice", "fuse_slice", "_compose_slices", "_slice_1d", "new_blockdim", "_compute_sliced_chunks", "posify_index"):
        if ctx.counters.get(f"contract_evals:{fn}", 0) == 0:
            ctx.inconc(f"contract on {fn} was never evaluated")
