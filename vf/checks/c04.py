"""C04 - graphs are closed, acyclic and produce exactly the advertised keys (structural monitor)."""

from __future__ import annotations

import pickle

import dask
import random

import numpy as np
from dask.core import flatten

from vf import sched
from vf.common import exc_site, short_tb
from vf.gen import Prog, ReplayRefused
from vf.util import closure_has_zero, fresh, graph_of, key_grid, tally_ops, tally_prog

PROPERTY = "C04"
WORKERS = {"quick": 16, "thorough": 16}
CASES = {"quick": 900, "thorough": 5400}
TIME = {"quick": 50, "thorough": 240}
RULE = (
    "random programs from G; for the output and one intermediate, with array.optimize-graph on and off: "
    "__dask_keys__() must equal the (name,*idx) grid over numblocks with name == x.name; __dask_graph__() must define every "
    "such key; every dependency of every task must be defined; Kahn toposort must consume all nodes; x.name must be "
    "unchanged after optimize()/simplify()/__dask_graph__()/compute()/persist()/pickle round trip. Thorough also executes the graph. "
    "distinct = op sequences; non-trivial = graph with >= 4 tasks and >= 2 ops"
)
ASSUMPTIONS = ["dask._task_spec.convert_legacy_graph gives the dependency sets the schedulers use"]


def check_structure(x, ctx, optimize, execute=False):
    tag = "opt" if optimize else "raw"
    name0 = x.name
    nb = x.numblocks
    try:
        y, dsk, keys = graph_of(x, optimize)
    except Exception as e:
        return [("graph_raises", f"[{tag}] {short_tb(e)}", f"graph_raises:{type(e).__name__}:{exc_site(e)}")]
    out = []
    grid = key_grid(name0, nb)
    if keys != grid:
        out.append(("keys_not_grid", f"[{tag}] __dask_keys__()={str(keys)[:200]} expected grid over {nb} named {name0}", f"keys_not_grid:{tag}"))
    flat = list(flatten(keys))
    missing = [k for k in flat if k not in dsk]
    if missing:
        out.append(("key_undefined", f"[{tag}] graph lacks advertised keys {missing[:3]}", f"key_undefined:{tag}"))
    deps, problems = sched.structure(dsk)
    for kind, msg in problems:
        out.append((kind, f"[{tag}] {msg}", f"{kind}:{tag}"))
    ctx.count("graphs_checked")
    ctx.count("tasks_walked", len(dsk))
    ctx.count("edges_walked", sum(len(d) for d in deps.values()))
    ctx.mx("max_tasks", len(dsk))
    if y.name != name0:
        out.append(("name_changed", f"[{tag}] name {name0} -> {y.name} after graph build", "name_changed:graph"))
    try:
        lowered = y._lowered_expr
        ctx.tab("root_alias_inserted", type(lowered).__name__ == "RootAlias")
    except Exception:
        pass
    if execute and not out:
        try:
            sched.execute(dsk, order="lifo", check_mutation=False)
            ctx.count("graphs_executed")
        except Exception as e:
            out.append(("execute_raises", f"[{tag}] {short_tb(e)}", f"execute_raises:{type(e).__name__}:{exc_site(e)}"))
    return out, len(dsk)


def check_names(x, ctx):
    out = []
    name0 = x.name
    keys0 = x.__dask_keys__()

    def same(label, y):
        ctx.count("name_checks")
        if y.name != name0:
            out.append(("name_changed", f"name {name0} -> {y.name} after {label}", f"name_changed:{label}"))

    y = fresh(x)
    for label, fn in [
        ("simplify", lambda: y.simplify()),
        ("optimize", lambda: y.optimize()),
        ("graph", lambda: y.__dask_graph__()),
        ("compute", lambda: y.compute()),
    ]:
        try:
            fn()
        except Exception:
            ctx.count(f"entry_raised:{label}")
            continue
        same(label, y)
        if y.__dask_keys__() != keys0:
            out.append(("keys_changed", f"keys changed after {label}", f"keys_changed:{label}"))
    try:
        p = fresh(x).persist()
        same("persist_self", x)
        ctx.count("name_checks")
        if p.name != name0:
            out.append(("name_changed", f"persisted name {p.name} != {name0}", "name_changed:persisted"))
    except Exception:
        ctx.count("entry_raised:persist")
    try:
        z = pickle.loads(pickle.dumps(fresh(x)))
        ctx.count("name_checks")
        if z.name != name0:
            out.append(("name_changed", f"unpickled name {z.name} != {name0}", "name_changed:pickle"))
    except Exception:
        ctx.count("entry_raised:pickle")
    return out


def check_one(g, v, ctx, execute):
    z = "|zero_size" if closure_has_zero(g, v) else ""
    problems = []
    ntasks = 0
    for optimize in (True, False):
        r = check_structure(v.da, ctx, optimize, execute)
        if isinstance(r, tuple):
            probs, n = r
            ntasks = max(ntasks, n)
        else:
            probs = r
        problems += [(k, m, mech + z) for k, m, mech in probs]
    problems += [(k, m, mech + z) for k, m, mech in check_names(v.da, ctx)]
    return problems, ntasks


def run_one(rng, ctx):
    big = ctx.tier == "thorough"
    if rng.random() < 0.05:
        case = {"interop": rng.randrange(10**9)}
        ctx.current_case = case
        seen = set()
        for kind, msg, mech in interop_case(random.Random(case["interop"]), ctx):
            if mech not in seen:
                seen.add(mech)
                ctx.violation(kind, msg, case=case, mech=mech)
        return
    g = Prog(rng, max_extent=rng.choice([7, 9, 12]) if big else 7, max_size=20000 if big else 4000)
    g.grow(rng.randint(1, 12 if big else 7))
    tally_prog(g, ctx)
    non_leaf = [v for v, s in zip(g.vars, g.steps) if s["in"]]
    if not non_leaf:
        return
    outs = [non_leaf[-1]]
    if len(non_leaf) > 1 and rng.random() < 0.4:
        outs.append(rng.choice(non_leaf[:-1]))
    for v in outs:
        case = {"steps": g.closure(v.id)}
        ctx.current_case = case
        problems, ntasks = check_one(g, v, ctx, execute=big)
        ctx.count("programs_checked")
        nops = sum(1 for s in case["steps"] if s["in"])
        ctx.seen(g.signature(v.id), nops >= 2 and ntasks >= 4)
        tally_ops(case["steps"], ctx)
        if len(ctx.samples) < 2 and ntasks >= 4:
            ctx.sample({"steps": case["steps"], "tasks": ntasks})
        report(problems, case, ctx)


def interop_case(rng, ctx):
    """Arrays made with the public from_graph (the interop entry point: blocks already sitting in a graph under somebody
    else's keys), two of them over ONE layer dict, used alone and together: every graph closed, the caller's dict intact."""
    import dask_array as da
    from dask_array.core import from_graph

    n = rng.randint(2, 5)
    sizes = [rng.randint(1, 3) for _ in range(n)]
    blocks = [np.arange(s, dtype="f8") + 10 * i for i, s in enumerate(sizes)]
    layer = {("theirs", i): b for i, b in enumerate(blocks)}
    before = dict(layer)
    chunks = (tuple(sizes),)
    keys = [("theirs", i) for i in range(n)]
    meta = np.empty((0,), dtype="f8")
    out = []
    try:
        a = from_graph(layer, meta, chunks, keys, "interop-a-" + str(rng.randrange(10**9)))
        b = from_graph(layer, meta, chunks, keys, "interop-b-" + str(rng.randrange(10**9)))
        progs = {"a": a, "b": b, "a+b": a + b, "concatenate": da.concatenate([a, b]), "b*2-a": b * 2 - a}
    except Exception as e:
        ctx.tab("interop_build_raised", f"{type(e).__name__}:{exc_site(e)}")
        return out
    exp = np.concatenate(blocks)
    want = {"a": exp, "b": exp, "a+b": exp * 2, "concatenate": np.concatenate([exp, exp]), "b*2-a": exp}
    for label, x in progs.items():
        for optimize in (True, False):
            r = check_structure(x, ctx, optimize, execute=True)
            probs = r[0] if isinstance(r, tuple) else r
            for kind, msg, mech in probs:
                out.append((kind, f"from_graph pair over one layer dict, {label}: {msg}", f"interop:{label}:{mech}"))
        try:
            got = x.compute()
            ctx.count("interop_values_compared")
            if got.shape != want[label].shape or not np.array_equal(got, want[label]):
                out.append(("interop_values", f"from_graph pair over one layer dict, {label}: computed {got!r}, expected {want[label]!r}", f"interop:{label}:values"))
        except Exception as e:
            out.append(("compute_raises", f"from_graph pair, {label}: {short_tb(e)}", f"interop:{label}:raise:{type(e).__name__}:{exc_site(e)}"))
    if set(layer) != set(before) or any(layer[k] is not before[k] for k in before if k in layer):
        out.append(("caller_layer_modified", f"the layer dict handed to from_graph was rewritten: keys now {sorted(map(str, layer))[:6]}", "interop:caller_layer_modified"))
    ctx.count("interop_cases")
    return out


RAISES = ("graph_raises", "execute_raises", "compute_raises")


def report(problems, case, ctx):
    """A program whose graph build raises has no graph to judge: C01/C08's event, tallied here."""
    for kind, msg, mech in problems:
        if kind in RAISES:
            ctx.count("skipped_program_raises")
            ctx.tab("raises_left_to_C01_C08", mech)
    own = [p for p in problems if p[0] not in RAISES]
    for kind, msg, mech in own[:2]:
        ctx.violation(kind, f"{msg}\n  program: {case['steps']}", case=case, mech=mech)


def replay_case(case, ctx):
    if "interop" in case:
        for kind, msg, mech in interop_case(random.Random(case["interop"]), ctx):
            ctx.violation(kind, msg, case=case, mech=mech)
        return
    try:
        g = Prog.replay(case["steps"])
    except ReplayRefused as e:
        ctx.violation("build_raises_on_replay", str(e), case=case, mech="replay_refused")
        return
    problems, _ = check_one(g, g.vars[-1], ctx, True)
    report(problems, case, ctx)


def finalize(ctx):
    if ctx.counters.get("graphs_checked", 0) == 0:
        ctx.inconc("no graph was checked")
    if ctx.counters.get("skipped_program_raises", 0) > 0.3 * max(1, ctx.counters.get("programs_checked", 0)):
        ctx.inconc("more than 30% of programs raised before their graph could be inspected")


RULE += (
    " Interop: two from_graph arrays over ONE caller-owned layer dict, alone and combined (closure, values, the caller's dict unchanged)."
)
