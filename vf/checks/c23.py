"""C23 - a random array is one fixed realization (self-consistency monitor over derived programs and histories)."""

from __future__ import annotations

import gc
import pickle
import random

import dask
import numpy as np

from vf import rewrites as R
from vf.common import exc_site, msg_key, short_tb
from vf.gen import Prog, ReplayRefused, vsame
from vf.oracles import same
from vf.util import fresh, tally_ops, tally_prog

PROPERTY = "C23"
WORKERS = {"quick": 16, "thorough": 16}
CASES = {"quick": 260, "thorough": 1600}
TIME = {"quick": 45, "thorough": 240}
CASE_TIMEOUT = 120
TECHNIQUE = (
    "runtime monitoring of self-consistency: the first computed value V of a seeded random array is the mirror leaf of generated derived "
    "programs (G's whole op table on top), so every later compute, every derived program (fused or not, optimized or raw), a rebuild from "
    "the same seed, a pickled copy and a persisted copy must all be computed from that same V; the rewrite recorder counts the rewrites "
    "that re-instantiate the Random node (the events that would re-seed it)"
)
RULE = (
    "random leaves: default_rng over PCG64 / MT19937 / Philox and RandomState; normal, uniform, standard_normal, poisson, binomial, "
    "exponential, integers, random, gamma and choice; scalar and array-valued parameters (NumPy and dask arrays, broadcast); 0-2 earlier "
    "draws from the same generator. Per case: V = first compute; recompute x3 (same object, fresh collection, threads); a second build "
    "of the same spec; 1-5 derived G steps (slices, rechunks, transposes, elemwise, reductions, r op r.T-style sharing) computed through "
    "the optimized graph and with array.optimize-graph=False; persist; cloudpickle round trip of the leaf and of the derived program; "
    "two arrays drawn in sequence from one generator must differ and each stay fixed. distinct = (generator, distribution, parameter "
    "kind, derived op sequence); non-trivial = multi-block leaf with >=1 derived op checked"
)
ASSUMPTIONS = ["NumPy cannot predict a dask random stream: the property is self-consistency against the first realization"]
WEIGHTS = {"#index": 1.5, "#rechunk": 2.0, "#move": 1.5, "#reduction": 1.3, "#elemwise": 1.2, "#linalg": 0.4, "#window": 0.8}


def setup(ctx):
    R.REC.install()


def gen_choice_desc(rng):
    size = rng.randint(2, 9)
    return {"kind": rng.choice(["default_rng", "RandomState"]), "seed": rng.randrange(10**6), "n": rng.randint(4, 12), "size": size, "chunks": rng.randint(1, size), "with_p": rng.random() < 0.4, "array_a": rng.random() < 0.4}


def choice_case(desc, ctx, problems):
    """rng.choice: successive draws differ in name, each is fixed across computes and derived programs."""
    import dask_array as da

    kind, seed, n, size, chunks, with_p, arr_a = (desc[k] for k in ("kind", "seed", "n", "size", "chunks", "with_p", "array_a"))
    ctx.tab("leaves", f"{kind}|choice|{'array_a' if arr_a else 'int_a'}{'|p' if with_p else ''}")

    def build():
        gen = da.random.default_rng(seed) if kind == "default_rng" else da.random.RandomState(seed)
        a = da.from_array(np.arange(n) * 0.5, chunks=max(1, n // 2)) if arr_a else n
        p = None
        if with_p:
            w = np.arange(1, n + 1, dtype="f8")
            p = da.from_array(w / w.sum(), chunks=max(1, n // 3))
        c1 = gen.choice(a, size=size, chunks=chunks, p=p)
        c2 = gen.choice(a, size=size, chunks=chunks, p=p)
        return c1, c2

    try:
        c1, c2 = build()
        v1, v2 = c1.compute(), c2.compute()
    except Exception as e:
        ctx.tab("choice_refused_or_raised", f"{type(e).__name__}:{exc_site(e)}")
        return desc
    ctx.count("choice_cases")
    if c1.name == c2.name:
        problems.append(("successive_draws_share_a_name", f"two successive choice draws share the name {c1.name}: {desc}", "choice:successive_draws_same_name"))
    for label, c, v in (("first", c1, v1), ("second", c2, v2)):
        for how, f in (("recompute", lambda: c.compute()), ("derived", lambda: (c + 0).compute()), ("fresh", lambda: fresh(c).compute()), ("pickled", lambda: pickle.loads(__import__("cloudpickle").dumps(c)).compute())):
            try:
                got = f()
            except Exception as e:
                problems.append((f"choice_{how}_raises", f"{how} of the {label} choice draw raised {short_tb(e)}: {desc}", f"choice:{how}:raise:{type(e).__name__}"))
                continue
            ctx.count("realization_checks")
            if not np.array_equal(np.asarray(got), np.asarray(v)):
                problems.append((f"choice_{how}_differs", f"{how} of the {label} choice draw {np.asarray(got).tolist()} != first realization {np.asarray(v).tolist()}: {desc}", f"choice:{how}_differs"))
    c1b, c2b = build()
    if not np.array_equal(c1b.compute(), v1) or not np.array_equal(c2b.compute(), v2):
        problems.append(("choice_rebuild_differs", f"rebuilding with the same seed gives other values: {desc}", "choice:rebuild_differs"))
    return desc


def check_program(g, leaf, derived, ctx, rng):
    problems = []
    V = leaf.np
    x = leaf.da
    spec = g.steps[leaf.id]["p"]
    pk = "scalar" if not spec.get("arr_param") else spec["arr_param"]["kind"] + "_array"

    # recorded finding: only normal and poisson take array-valued parameters as real dependencies; the generic Random node keeps
    # Array collections inside its args tuple, so metadata/persist/pickle of e.g. rng.uniform(array, ...) fail
    generic_with_array = type(x.expr).__name__ == "Random" and any(hasattr(a, "expr") for a in tuple(x.expr.args) + tuple(x.expr.kwargs.values()))
    if generic_with_array:
        ctx.count("generic_random_with_array_parameter")

    def known(mech):
        return "generic_random_with_array_parameter" if generic_with_array else mech

    def cmp(label, got, var=leaf):
        ctx.count("realization_checks")
        why = vsame(var, got)
        if why:
            problems.append((f"{label}_differs", f"{label}: {why}", known(f"{label}:{spec['dist']}:{pk}:{why.split()[0]}")))

    def guarded(label, f, var=leaf):
        try:
            got = f()
        except Exception as e:
            problems.append((f"{label}_raises", f"{label} raised {short_tb(e)}", known(f"{label}:raise:{type(e).__name__}:{exc_site(e)}:{msg_key(e)}")))
            return
        cmp(label, got, var)

    # the leaf itself, again and again
    guarded("recompute_same_object", lambda: x.compute())
    # the user goes on drawing from the same generator(s): x stays the realization it was
    import vf.gen as G_

    for gen_, is_rs_ in (G_.RAND_GENS or [])[-2:]:
        try:
            G_._rand_draw(gen_, "normal", [0.0, 1.0], [4], [[2, 2]], is_rs_)
            G_._rand_draw(gen_, "random", [], [3], [[3]], is_rs_)
            ctx.count("later_draws_from_the_same_generator", 2)
        except Exception as e:
            ctx.tab("later_draw_raised", type(e).__name__)
    guarded("recompute_after_later_draws", lambda: fresh(x).compute())
    guarded("recompute_fresh_collection", lambda: fresh(x).compute())
    guarded("recompute_threads", lambda: fresh(x).compute(scheduler="threads", num_workers=4))
    guarded("raw_graph", lambda: _raw(x))
    guarded("persisted", lambda: x.persist().compute())
    guarded("pickled_leaf", lambda: pickle.loads(__import__("cloudpickle").dumps(x)).compute())
    gc.collect()
    # derived programs
    for v in derived:
        R.REC.start()
        try:
            got = fresh(v.da).compute()
        except Exception as e:
            R.REC.stop()
            # does the same derived program fail on a plain NumPy-backed leaf too?  then it is the op's defect (C01)
            ctx.tab("derived_raised", f"{g.steps[v.id]['op']}:{type(e).__name__}")
            continue
        recs = R.REC.stop()
        n_re = sum(1 for r in recs if any("Random" in type(n).__name__ for n in _walk(r.after)) and any("Random" in type(n).__name__ for n in _walk(r.before)))
        ctx.count("rewrites_over_random_nodes", n_re)
        ctx.count("derived_programs")
        op = g.steps[v.id]["op"]
        why = vsame(v, got)
        if why and fails_on_numpy_leaf_too(g, leaf, v):
            ctx.count("derived_defect_of_the_op_left_to_C01")
            continue
        if why:
            problems.append(("derived_differs", f"derived program ({op}) is not computed from the first realization: {why}", known(f"derived:{spec['dist']}:{pk}:{why.split()[0]}")))
            continue
        guarded("derived_raw_graph", lambda: _raw(v.da), v)
        guarded("derived_pickled", lambda: pickle.loads(__import__("cloudpickle").dumps(v.da)).compute(), v)
    return problems


SEED_CODE = r"""
import sys, warnings
warnings.simplefilter("ignore")
import numpy as np, dask
dask.config.set(scheduler="sync")
import dask_array as da
s, n, c, dist = int(sys.argv[1]), int(sys.argv[2]), int(sys.argv[3]), sys.argv[4]
def draw():
    f = getattr(da.random, dist)
    return (f(size=n, chunks=c) if dist != "randint" else f(0, 50, size=n, chunks=c)).compute()
da.random.seed(s)          # seeding before anything was drawn in this interpreter
a1 = draw(); b1 = draw()
da.random.seed(s)
a2 = draw(); b2 = draw()
print("SEEDED", bool(np.array_equal(a1, a2)), bool(np.array_equal(b1, b2)), bool(np.array_equal(a1, b1)) if n > 3 else False)
"""


def module_seed_case(rng, ctx, problems):
    """da.random.seed(s) in a fresh interpreter: the first seeded array is the realization that seed reproduces later."""
    import os
    import subprocess

    from vf.common import PY, REPO, VERIF

    s, n, c = rng.randrange(10**6), rng.randint(4, 12), rng.randint(1, 4)
    dist = rng.choice(["random", "normal", "standard_normal", "randint"])
    env = dict(os.environ)
    env["PYTHONPATH"] = f"{VERIF}:{REPO}"
    try:
        p = subprocess.run([PY, "-c", SEED_CODE, str(s), str(n), str(c), dist], capture_output=True, text=True, timeout=120, env=env, cwd=VERIF)
    except subprocess.TimeoutExpired:
        ctx.count("module_seed_timeouts")
        return
    line = [l for l in p.stdout.splitlines() if l.startswith("SEEDED")]
    if not line:
        ctx.tab("module_seed_child_failed", (p.stderr.strip().splitlines() or ["?"])[-1][:80])
        return
    ctx.count("module_seed_cases")
    ctx.count("realization_checks", 2)
    _, same_a, same_b, same_ab = line[0].split()
    desc = {"seed": s, "n": n, "chunks": c, "dist": dist}
    if same_a != "True" or same_b != "True":
        problems.append(("reseeding_gives_other_values", f"da.random.seed({s}); x = da.random.{dist}(...) in a fresh interpreter, then seed({s}) again: first array equal {same_a}, second equal {same_b}: {desc}", "module_seed:reseeding_differs"))
    if same_ab == "True":
        problems.append(("successive_draws_equal", f"two successive module-level draws after seed({s}) are identical: {desc}", "module_seed:successive_draws_equal"))


def fails_on_numpy_leaf_too(g, leaf, v):
    """Re-run the derived program over from_array(V) with the same chunks: a failure there is the op's defect, not the randomness."""
    from vf.gen import literal_step

    try:
        steps = [dict(s) for s in g.steps[: v.id + 1]]
        steps[leaf.id] = literal_step(leaf.np, leaf.da.chunks)
        g2 = Prog.replay(steps)
        w = g2.vars[v.id]
        return vsame(w, w.da.compute()) is not None
    except Exception:
        return True


def _walk(e):
    try:
        return list(e.walk())
    except Exception:
        return []


def _raw(x):
    with dask.config.set({"array.optimize-graph": False}):
        return fresh(x).compute()


def run_one(rng, ctx):
    big = ctx.tier == "thorough"
    if rng.random() < 0.02:
        problems = []
        module_seed_case(rng, ctx, problems)
        for kind, msg, mech in problems:
            ctx.violation(kind, msg, case={"module_seed": True}, mech=mech)
        return
    if rng.random() < 0.15:
        problems = []
        desc = gen_choice_desc(rng)
        ctx.current_case = {"choice": desc}
        choice_case(desc, ctx, problems)
        seen = set()
        for kind, msg, mech in problems:
            if mech not in seen:
                seen.add(mech)
                ctx.violation(kind, msg, case={"choice": desc}, mech=mech)
        return
    import vf.gen as G_

    G_.RAND_GENS = []
    g = Prog(rng, max_extent=9 if big else 7, max_size=3000, weights=WEIGHTS, nan_prob=0.0)
    leaf = g.add_leaf("random")
    if leaf is None:
        ctx.count("leaf_refused")
        return
    if rng.random() < 0.3:
        g.add_leaf()
    derived = []
    for _ in range(rng.randint(1, 6 if big else 4)):
        pool = [leaf] + [d for d in derived if "masked" not in d.flags]
        v = g.step_on(rng.choice(pool)) if rng.random() < 0.8 else g.step()
        if v is not None and v.da is not None:
            derived.append(v)
    tally_prog(g, ctx)
    spec = g.steps[leaf.id]["p"]
    pk = "scalar" if not spec.get("arr_param") else spec["arr_param"]["kind"] + "_array"
    ctx.tab("leaves", f"{spec['gen']}|{spec['dist']}|{pk}")
    case = {"steps": [dict(s) for s in g.steps], "leaf": leaf.id, "derived": [v.id for v in derived]}
    ctx.current_case = case
    problems = check_program(g, leaf, derived, ctx, rng)
    ctx.count("programs_checked")
    multi = any(len(c) > 1 for c in spec["chunks"])
    ctx.seen((spec["gen"], spec["dist"], pk, tuple(g.steps[v.id]["op"] for v in derived)), multi and len(derived) >= 1)
    tally_ops(case["steps"], ctx)
    if len(ctx.samples) < 2 and derived:
        ctx.sample({"leaf": spec, "derived_ops": [g.steps[v.id]["op"] for v in derived]})
    seen = set()
    for kind, msg, mech in problems:
        if mech in seen:
            continue
        seen.add(mech)
        ctx.violation(kind, f"{msg}\n  program: {case['steps']}", case=case, mech=mech)


def replay_case(case, ctx):
    if "module_seed" in case:
        problems = []
        module_seed_case(random.Random(0), ctx, problems)
        for kind, msg, mech in problems:
            ctx.violation(kind, msg, case=case, mech=mech)
        return
    if "choice" in case:
        problems = []
        choice_case(case["choice"], ctx, problems)
        seen = set()
        for kind, msg, mech in problems:
            if mech not in seen:
                seen.add(mech)
                ctx.violation(kind, msg, case=case, mech=mech)
        return
    import vf.gen as G_

    G_.RAND_GENS = []
    try:
        g = Prog.replay(case["steps"])
    except ReplayRefused as e:
        ctx.violation("build_raises_on_replay", str(e), case=case, mech="replay_refused")
        return
    problems = check_program(g, g.vars[case["leaf"]], [g.vars[i] for i in case["derived"]], ctx, random.Random(0))
    seen = set()
    for kind, msg, mech in problems:
        if mech not in seen:
            seen.add(mech)
            ctx.violation(kind, msg, case=case, mech=mech)


def finalize(ctx):
    if ctx.counters.get("realization_checks", 0) == 0:
        ctx.inconc("no realization was compared")
    if ctx.counters.get("derived_programs", 0) == 0:
        ctx.inconc("no derived program was computed")


RULE += (
    " After the first realization the harness goes on drawing from the leaf's generator; recomputation, rebuilds and pickles must still give the first realization."
)
