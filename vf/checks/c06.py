"""C06 - equal names denote equal arrays (process-wide name and key registries)."""

from __future__ import annotations

import random
import weakref

import dask
import numpy as np

from vf import gen as G
from vf import sched
from vf.common import exc_site, h64, short_tb
from vf.gen import OPS, Prog, ReplayRefused, Skip
from vf.oracles import fingerprint
from vf.util import graph_of, tally_prog

PROPERTY = "C06"
WORKERS = {"quick": 16, "thorough": 16}
CASES = {"quick": 400, "thorough": 2400}
TIME = {"quick": 45, "thorough": 240}
CASE_TIMEOUT = 120
TECHNIQUE = (
    "runtime monitoring with process-wide registries: (A) every collection built by any program of the process registers name -> "
    "(NumPy value hash, shape, dtype, chunks) and a second registration of the same name must agree; (B) the instrumented scheduler logs "
    "key -> value fingerprint for every task of every executed graph (optimized and raw) and a key seen with two values is a violation; "
    "(C) an observer on SingletonExpr.__new__ compares, on every de-duplication hit, the shape/chunks/dtype the discarded candidate derives "
    "from its own operands with the survivor's; (D) an instrumented _LOWER_CACHE compares the cached node's shape/dtype with the registered "
    "metadata of the requested name"
)
RULE = (
    "near-miss program families: G emits a program and 2-5 mutants that differ from it in exactly one parameter of one step (axis, "
    "keepdims, split_every, ddof, dtype, a slice bound, chunk spec, window, depth/boundary, a kernel argument, leaf dtype/chunks/values) "
    "and share every other step, so a field forgotten by a tokenizer or a hand-built name makes two different arrays collide; all families "
    "of a worker live in one process (2-5k collections). Each family member's output is executed on the optimized and the raw graph. "
    "distinct = (op of the mutated step, parameter that changed); non-trivial = the mutated parameter changed the NumPy value or the "
    "chunks and both variants were registered"
)
ASSUMPTIONS = [
    "the NumPy mirror decides which arrays are different; equal values under different names are legal",
    "float task values under one key are compared with rtol 1e-4 relative to the block's magnitude: a pinned root key is legitimately produced by the raw and by the optimized form of the program, which round differently (float32 intermediates); leaves hold distinct multiples of 0.25, so different arrays differ by far more",
]
WEIGHTS = {"#reduction": 2.0, "#rechunk": 2.0, "#index": 1.5, "#window": 1.5, "#map_blocks": 2.0, "#combine": 1.2, "#linalg": 0.5}

NAMES = {}  # name -> (value hash, shape, dtype, chunks, witness)
KEYS = {}  # graph key -> (fingerprint, value or None, witness)
STATE = {"dedup_pairs": [], "recording": True, "dedup_hits": 0, "cache_hits": 0, "cache_problems": []}


def norm_chunks(ch):
    return tuple(tuple(("nan" if (isinstance(c, float) and c != c) else int(c)) for c in dim) for dim in ch)


class ObservedCache(weakref.WeakValueDictionary):
    def __getitem__(self, k):
        v = super().__getitem__(k)
        STATE["cache_hits"] += 1
        reg = NAMES.get(k)
        if reg is not None and STATE["recording"]:
            try:
                STATE["recording"] = False
                shp = norm_chunks((tuple(v.shape),))[0]
                adv_shape, adv_dtype = reg[6]
                if adv_shape != shp and "nan" not in shp and "nan" not in adv_shape:
                    STATE["cache_problems"].append((k, f"lowering cache returned a node of shape {shp} for {k}, advertised shape {adv_shape}"))
                elif adv_dtype != str(v.dtype):
                    STATE["cache_problems"].append((k, f"lowering cache returned dtype {v.dtype} for {k}, advertised dtype {adv_dtype}"))
            except Exception:
                pass
            finally:
                STATE["recording"] = True
        return v


def setup(ctx):
    import dask_array._materialize as M
    from dask._expr import Expr, SingletonExpr

    if not isinstance(M._LOWER_CACHE, ObservedCache):
        oc = ObservedCache()
        oc.update(M._LOWER_CACHE)
        M._LOWER_CACHE = oc
    if getattr(SingletonExpr, "_vf_c06", False):
        return

    def observed_new(cls, *args, _determ_token=None, **kwargs):
        # same logic as dask's SingletonExpr.__new__, keeping the discarded candidate for comparison
        if not hasattr(cls, "_instances"):
            cls._instances = weakref.WeakValueDictionary()
        inst = Expr.__new__(cls, *args, _determ_token=_determ_token, **kwargs)
        _name = inst._name
        if _name in cls._instances and cls.__init__ == object.__init__:
            surv = cls._instances[_name]
            STATE["dedup_hits"] += 1
            if STATE["recording"] and surv is not inst and len(STATE["dedup_pairs"]) < 400:
                STATE["dedup_pairs"].append((inst, surv))
            return surv
        cls._instances[_name] = inst
        return inst

    SingletonExpr.__new__ = staticmethod(observed_new)
    SingletonExpr._vf_c06 = True


def judge_dedup_pairs(ctx, problems):
    pairs, STATE["dedup_pairs"] = STATE["dedup_pairs"], []
    STATE["recording"] = False
    try:
        for cand, surv in pairs:
            for attr in ("shape", "dtype", "chunks"):
                try:
                    a = getattr(cand, attr)
                    b = getattr(surv, attr)
                except Exception:
                    ctx.count("dedup_attr_unavailable")
                    continue
                ctx.count("dedup_attrs_compared")
                if attr == "chunks":
                    a, b = norm_chunks(a), norm_chunks(b)
                elif attr == "shape":
                    a, b = norm_chunks((a,)), norm_chunks((b,))
                if a != b:
                    problems.append(("dedup_substitutes_different_node", f"de-duplication by name {surv._name}: the new {type(cand).__name__} derives {attr}={a} from its own operands, the surviving instance has {attr}={b}", f"dedup:{type(cand).__name__}:{attr}"))
                    break
    finally:
        STATE["recording"] = True


def register(g, v, ctx, problems, witness):
    x = v.da
    if x is None:
        return
    try:
        name = x.name
        chunks = norm_chunks(x.chunks)
        dtype = str(x.dtype)
    except Exception:
        return
    val = v.np
    masked = isinstance(val, np.ma.MaskedArray)
    data = np.ma.getdata(val) if masked else np.asarray(val)
    vh = h64(np.ascontiguousarray(data).tobytes() + (np.ma.getmaskarray(val).tobytes() if masked else b""))
    rec = (vh, tuple(val.shape), str(val.dtype), chunks, witness, val.size == 0, (norm_chunks((tuple(x.shape),))[0], dtype))
    ctx.count("names_registered")
    old = NAMES.get(name)
    if old is None:
        NAMES[name] = rec
        return
    ctx.count("name_repeats")
    if old[1] != rec[1]:
        problems.append(("same_name_different_shape", f"name {name}: shape {old[1]} vs {rec[1]}\n  first:  {old[4]}\n  second: {witness}", f"name_collision:shape:{g.steps[v.id]['op']}"))
    elif old[0] != rec[0] and not _values_close(old, rec, g, v):
        problems.append(("same_name_different_values", f"name {name} denotes two different arrays\n  first:  {old[4]}\n  second: {witness}", f"name_collision:values:{g.steps[v.id]['op']}"))
    elif old[3] != rec[3]:
        problems.append(("same_name_different_chunks", f"name {name}: chunks {old[3]} vs {rec[3]}\n  first:  {old[4]}\n  second: {witness}", f"name_collision:chunks:{g.steps[v.id]['op']}"))
    elif old[2] != rec[2] and val.size:
        problems.append(("same_name_different_dtype", f"name {name}: dtype {old[2]} vs {rec[2]}\n  first:  {old[4]}\n  second: {witness}", f"name_collision:dtype:{g.steps[v.id]['op']}"))


def _values_close(old, rec, g, v):
    return False  # mirrors of one name are produced by the same NumPy calls on the same inputs: bit-identical or different


def log_keys(run, ctx, problems, witness):
    for k, fp in run.fp.items():
        ctx.count("keys_fingerprinted")
        old = KEYS.get(k)
        val = run.values.get(k)
        if isinstance(val, np.generic):
            # a 0-d block may be a NumPy scalar in one graph and a 0-d array in another: same value
            val = np.asarray(val)
            fp = fingerprint(val)
        if old is None:
            keep = val if isinstance(val, np.ndarray) and val.dtype.kind in "fc" and val.size <= 4096 else None
            KEYS[k] = (fp, keep, witness)
            continue
        ctx.count("key_repeats")
        if old[0] == fp:
            continue
        # float values under one key may be produced inside differently fused tasks: compare numerically
        if old[1] is not None and isinstance(val, np.ndarray) and val.shape == old[1].shape and val.dtype == old[1].dtype:
            with np.errstate(all="ignore"):
                fin = np.abs(val[np.isfinite(val)]) if val.size else np.zeros(0)
                scale = float(fin.max()) if fin.size else 1.0
                if np.allclose(val, old[1], rtol=1e-4, atol=1e-4 * max(1.0, scale), equal_nan=True):
                    ctx.count("key_repeats_float_close")
                    continue
        if fp[0] == "obj" or old[0][0] == "obj":
            continue
        mech_ = f"key_collision:{str(k[0] if isinstance(k, tuple) else k).split('-')[0]}"
        problems.append(("same_key_different_value", f"graph key {k!r} computed to two different values: {old[0][:3]} vs {fp[:3]}\n  first:  {old[2]}\n  second: {witness}", mech_))
        if len(problems) > 4:
            return


def mutate(steps, rng, ctx):
    """A near-miss variant of `steps`: exactly one step gets freshly generated parameters. Returns (steps', info) or None."""
    idxs = list(range(len(steps)))
    rng.shuffle(idxs)
    for i in idxs[:6]:
        try:
            g = Prog.replay(steps[:i])
        except ReplayRefused:
            continue
        g.rng = rng
        s = steps[i]
        op = OPS[s["op"]]
        ins = [g.vars[j] for j in s["in"]]
        newp = None
        for _ in range(6):
            try:
                p2 = op.gen(g, ins)
            except Skip:
                continue
            except Exception:
                break
            if p2 != s["p"]:
                # keep the change to ONE field where possible
                if isinstance(p2, dict) and isinstance(s["p"], dict):
                    diff = [k for k in p2 if p2.get(k) != s["p"].get(k)]
                    if len(diff) > 1:
                        k = rng.choice(diff)
                        cand = dict(s["p"])
                        cand[k] = p2[k]
                        p2 = cand
                        diff = [k]
                    what = diff[0] if diff else "?"
                else:
                    what = "params"
                newp = (p2, what)
                break
        if newp is None:
            continue
        out = [dict(x) for x in steps[:i]] + [{"op": s["op"], "in": list(s["in"]), "p": newp[0]}] + [dict(x) for x in steps[i + 1 :]]
        return out, (s["op"], newp[1], i)
    return None


def build_lenient(steps):
    """Replay steps, dropping those that no longer apply after the mutation (and their dependents)."""
    g = Prog(random.Random(0))
    g.max_size = 10**9
    remap = {}
    for i, s in enumerate(steps):
        if any(j not in remap for j in s["in"]):
            continue
        v = g.apply(s["op"], [remap[j] for j in s["in"]], s["p"], record_refusal=False)
        if v is not None:
            remap[i] = v.id
    return g, remap


def exercise(g, ctx, problems, witness, rng):
    """Register every variable; execute the last output on the optimized and the raw graph, logging key fingerprints."""
    for v in g.vars:
        register(g, v, ctx, problems, {"steps": g.closure(v.id)} if len(problems) == 0 else witness)
    outs = [v for v, s in zip(g.vars, g.steps) if s["in"] and v.da is not None]
    if not outs:
        return
    v = outs[-1]
    for optimize in (True, False):
        try:
            y, dsk, keys = graph_of(v.da, optimize)
            run = sched.execute(dsk, order="random", rng=rng, check_mutation=False)
        except Exception as e:
            ctx.tab("execute_raised_left_to_C01_C08", f"{type(e).__name__}:{exc_site(e)}")
            continue
        ctx.count("graphs_executed")
        log_keys(run, ctx, problems, {"steps": g.closure(v.id), "optimize": optimize})


def run_family(steps, variants, ctx, rng):
    problems = []
    if G.RO_BASES is None:
        G.RO_BASES = []
    g = Prog.replay(steps)
    exercise(g, ctx, problems, {"steps": steps}, rng)
    # the user edits the buffers whose read-only views were handed to from_array, then builds the same program again from
    # fresh data: the names are the same, so the arrays must be (the live nodes must not have followed the edit)
    edited = G.edit_ro_bases()
    G.RO_BASES = None
    if edited:
        ctx.count("source_buffers_edited_after_build", edited)
        g_again = Prog.replay(steps)
        exercise(g_again, ctx, problems, {"steps": steps, "after_source_edit": True}, rng)
        exercise(g, ctx, problems, {"steps": steps, "recomputed_after_source_edit": True}, rng)
    for vsteps, info in variants:
        g2, remap = build_lenient(vsteps)
        if info is not None:
            op, what, i = info
            changed = False
            if i in remap and i < len(g.vars):
                a, b = g.vars[i], g2.vars[remap[i]]
                try:
                    changed = a.np.shape != b.np.shape or a.np.dtype != b.np.dtype or not np.array_equal(np.asarray(a.np), np.asarray(b.np), equal_nan=a.np.dtype.kind in "fc") or norm_chunks(a.da.chunks) != norm_chunks(b.da.chunks)
                except Exception:
                    changed = True
                if a.da is not None and b.da is not None:
                    ctx.tab("near_miss_names", "names differ" if a.da.name != b.da.name else ("same name, same array" if not changed else "SAME NAME, DIFFERENT ARRAY"))
            ctx.seen((op, what), changed)
            ctx.tab("mutated", f"{op}.{what}")
        exercise(g2, ctx, problems, {"steps": vsteps}, rng)
    judge_dedup_pairs(ctx, problems)
    for k, msg in STATE["cache_problems"]:
        problems.append(("lower_cache_wrong_node", msg, "lower_cache:metadata"))
    STATE["cache_problems"] = []
    return problems


def run_one(rng, ctx):
    big = ctx.tier == "thorough"
    G.RO_BASES = []  # from the first build on: the node that survives de-duplication is the first one built
    g = Prog(rng, max_extent=rng.choice([7, 9]) if big else 7, max_size=3000, weights=WEIGHTS)
    g.grow(rng.randint(2, 8 if big else 6))
    tally_prog(g, ctx)
    if not g.vars:
        return
    steps = [dict(s) for s in g.steps]
    variants = []
    for _ in range(rng.randint(2, 5)):
        m = mutate(steps, rng, ctx)
        if m is not None:
            variants.append(m)
    case = {"steps": steps, "variants": [[vs, list(info)] for vs, info in variants], "rseed": rng.randrange(10**9)}
    ctx.current_case = case
    problems = run_family(steps, variants, ctx, random.Random(case["rseed"]))
    ctx.count("families")
    ctx.count("programs_checked", 1 + len(variants))
    if len(ctx.samples) < 2 and variants:
        ctx.sample({"base_ops": [s["op"] for s in steps], "mutations": [list(info) for _, info in variants]})
    seen = set()
    for kind, msg, mech in problems:
        if mech in seen:
            continue
        seen.add(mech)
        ctx.violation(kind, msg, case=case, mech=mech)


def replay_case(case, ctx):
    variants = [(vs, tuple(info) if info else None) for vs, info in case.get("variants", [])]
    try:
        problems = run_family(case["steps"], variants, ctx, random.Random(case.get("rseed", 0)))
    except ReplayRefused as e:
        ctx.violation("build_raises_on_replay", str(e), case=case, mech="replay_refused")
        return
    seen = set()
    for kind, msg, mech in problems:
        if mech not in seen:
            seen.add(mech)
            ctx.violation(kind, msg, case=case, mech=mech)


def finalize(ctx):
    ctx.count("dedup_hits_observed", STATE["dedup_hits"])
    ctx.count("lower_cache_hits_observed", STATE["cache_hits"])
    ctx.mx("names_live_in_one_process", len(NAMES))
    ctx.mx("keys_live_in_one_process", len(KEYS))
    if ctx.counters.get("name_repeats", 0) == 0:
        ctx.inconc("no name was ever registered twice: the registry decided nothing")
    if ctx.counters.get("key_repeats", 0) == 0:
        ctx.inconc("no graph key was ever computed twice")
    if ctx.counters.get("dedup_attrs_compared", 0) == 0:
        ctx.inconc("no de-duplication hit was judged")


RULE += (
    ' Source edits: leaves are sometimes read-only views of a writable base; after the first build the bases are edited in place, the family is rebuilt and recomputed: the same names/keys must still denote the first values.'
)
