"""C29 - building and inspecting arrays never touches data (phase-tagged read/invocation log)."""

from __future__ import annotations

import pickle

import dask
import numpy as np

from vf import rec
from vf.common import exc_site, msg_key, short_tb
from vf.gen import OPS, Prog, rand_chunks

PROPERTY = "C29"
WORKERS = {"quick": 16, "thorough": 16}
CASES = {"quick": 500, "thorough": 3000}
TIME = {"quick": 50, "thorough": 240}
TECHNIQUE = "runtime monitoring: recording sources and recording block functions tag every read / invocation with the phase (build vs execute) flipped by the harness around compute(); offline check of the event log"
RULE = (
    "programs from G whose leaves are RecStore sources (sentinel values >= 1000) and whose kernels are recording block functions; for every "
    "variable the metadata accessors shape, chunks, dtype, name, __dask_keys__, repr, _repr_html_, len, numblocks, npartitions, nbytes, "
    "transfer_bytes, chunksize, pprint, explain, chunk_report, simplify, optimize, expr.optimize, __dask_graph__, to_delayed, dask.optimize, "
    "pickling are called in the build phase. Violations: a build-phase read of a non-empty selection from a source; a build-phase call of a "
    "user block function on a non-empty block (a 1-element zero-filled dtype-inference probe is logged, not flagged, unless dtype= was "
    "given). Sources enter through from_array, asarray, asanyarray or operator coercion; kernels include blockwise with dtype= only over "
    "0-d values raised to n-d again, and map_overlap with declared dtype/meta followed by a slice of its halo-free axes. Sanity: the execute phase must read (else inconclusive). distinct = (accessor, op sequence); non-trivial = program with "
    ">= 2 ops over a multi-block source"
)
ASSUMPTIONS = ["dask's documented dtype inference calls the function on 1-element fake data when dtype/meta are omitted: an inference probe, not user data"]
ACCESSORS = [
    ("shape", lambda x: x.shape),
    ("chunks", lambda x: x.chunks),
    ("dtype", lambda x: x.dtype),
    ("name", lambda x: x.name),
    ("keys", lambda x: x.__dask_keys__()),
    ("repr", lambda x: repr(x)),
    ("html", lambda x: x._repr_html_()),
    ("len", lambda x: len(x) if x.ndim else None),
    ("numblocks", lambda x: x.numblocks),
    ("npartitions", lambda x: x.npartitions),
    ("nbytes", lambda x: x.nbytes),
    ("transfer_bytes", lambda x: x.transfer_bytes),
    ("chunksize", lambda x: x.chunksize),
    ("explain", lambda x: __import__("dask_array").explain(x)),
    ("chunk_report", lambda x: __import__("dask_array").chunk_report(x)),
    ("simplify", lambda x: x.simplify()),
    ("optimize", lambda x: x.optimize()),
    ("expr_optimize", lambda x: x.expr.optimize()),
    ("graph", lambda x: x.__dask_graph__()),
    ("to_delayed", lambda x: x.to_delayed()),
    ("dask_optimize", lambda x: dask.optimize(x)),
    ("meta", lambda x: x._meta),
    ("ndim", lambda x: x.ndim),
    ("size", lambda x: x.size),
]
SAFE_OPS = [n for n, o in OPS.items() if o.w > 0 and n not in ("map_blocks", "map_blocks2", "blockwise_outer", "map_overlap")]


class StoreProg(Prog):
    """G with RecStore leaves and recording kernels."""

    def __init__(self, rng, **kw):
        super().__init__(rng, **kw)
        self.stores = []

    def add_store_leaf(self):
        import dask_array as da

        shape = self.new_shape()
        data = (np.arange(int(np.prod(shape)), dtype=self.rng.choice(["f8", "i8"])) + 1000).reshape(shape)
        grid = None
        if shape and self.rng.random() < 0.5:
            grid = tuple(max(1, self.rng.randint(1, max(1, s))) for s in shape)
        store = rec.RecStore(data, chunks=grid, allow_fancy=True, allow_step=True)
        self.stores.append(store)
        chunks = rand_chunks(self.rng, shape)
        how = self.rng.choice(["from_array"] * 3 + ["asarray", "asanyarray", "implicit", "asanyarray_dtype", "setitem_value"])
        if how == "from_array":
            x = da.from_array(store, chunks=chunks)
        elif how == "asanyarray_dtype":
            x = da.asanyarray(store, dtype=data.dtype)
        elif how == "setitem_value" and shape:
            # the source is the VALUE of an assignment (coerced with the target's dtype)
            x = da.zeros(shape, chunks=chunks, dtype=data.dtype)
            x[...] = store
        elif how == "implicit" or how == "setitem_value":
            # the source enters through coercion by an operator
            x = da.zeros(shape, chunks=chunks, dtype=data.dtype) + store
        else:
            x = getattr(da, how)(store)
        return self._add("from_store", [], {"shape": list(shape), "chunks": [list(c) for c in x.chunks], "grid": grid, "how": how}, data, x, 0, 0)


def build_program(rng, ctx):
    import dask_array as da

    g = StoreProg(rng, max_extent=7, max_size=2000, ops=SAFE_OPS, nan_prob=0.0)
    with rec.phase("build"):
        for _ in range(rng.choice([1, 1, 2])):
            g.add_store_leaf()
        for _ in range(rng.randint(1, 6)):
            r = rng.random()
            if r < 0.2 and g.vars:
                # recording kernels
                v = rng.choice([u for u in g.vars if u.np.dtype.kind in "fi"] or g.vars)
                kind = rng.choice(["plain", "plain_dtype", "block_info_dtype", "block_info", "blockwise_dtype_only", "zero_d_expand", "overlap_declared", "overlap_declared", "sample_meta"])
                try:
                    if kind in ("blockwise_dtype_only", "zero_d_expand"):
                        src, e = v.da, v.np
                        if kind == "zero_d_expand":
                            # a 0-d value whose rank is raised again, then a user kernel with dtype= only
                            if src.ndim:
                                src, e = src.sum(), np.asarray(e.sum())
                            if rng.random() < 0.5:
                                shp = (1,) * rng.randint(1, 3)
                                src, e = src.reshape(shp), e.reshape(shp)
                            else:
                                shp = tuple(rng.randint(1, 4) for _ in range(rng.randint(1, 2)))
                                src, e = da.broadcast_to(src, shp), np.broadcast_to(e, shp)
                            mid = g._add("zero_d_expand", [v.id], {"shape": list(shp)}, e, src, 0, v.depth + 1)
                            vid = mid.id
                        else:
                            vid = v.id
                        ind = tuple(range(src.ndim))
                        y = da.blockwise(rec.rec_plain_fn, ind, src, ind, dtype=float, tag="dtype_only")
                        g._add("rec_blockwise", [vid], {"kind": kind}, e + 1.0, y, 0, v.depth + 2)
                        ctx.count(f"kernels:{kind}")
                        continue
                    if kind == "sample_meta":
                        # the user passes a NON-EMPTY sample array as meta=; a later op infers its meta by calling a kernel
                        sample = np.ones((2,) * v.ndim, dtype=v.np.dtype)
                        y = da.map_blocks(rec.rec_declared_fn, v.da, dtype=v.np.dtype, meta=sample)
                        mid = g._add("rec_map_blocks", [v.id], {"kind": kind}, v.np + 1, y, 0, v.depth + 1)
                        ind = tuple(range(y.ndim))
                        z = da.blockwise(rec.rec_plain_fn, ind, y, ind, dtype=float, tag="dtype_only")
                        g._add("rec_blockwise", [mid.id], {"kind": kind}, v.np + 2.0, z, 0, v.depth + 2)
                        ctx.count("kernels:sample_meta")
                        continue
                    if kind == "overlap_declared":
                        if v.ndim < 1 or min(v.np.shape) < 1:
                            continue
                        ax = rng.randrange(v.ndim)
                        d = rng.randint(1, 2)
                        depth = {a: (d if a == ax else 0) for a in range(v.ndim)}
                        bnd = rng.choice(["none", "reflect", "nearest"])
                        mo_kw = {"dtype": v.np.dtype}
                        if rng.random() < 0.5:
                            mo_kw["meta"] = np.empty((0,) * v.ndim, dtype=v.np.dtype)
                        y = v.da.map_overlap(rec.rec_declared_fn, depth=depth, boundary=bnd, **mo_kw)
                        mid = g._add("rec_map_overlap", [v.id], {"depth": depth, "boundary": bnd}, v.np + 1, y, 0, v.depth + 1)
                        # a slice touching only the halo-free axes (the optimizer rebuilds the overlap over the sliced input)
                        idx = []
                        for a, n in enumerate(v.np.shape):
                            if a == ax or n < 2 or rng.random() < 0.3:
                                idx.append(slice(None))
                            else:
                                lo = rng.randrange(n)
                                idx.append(slice(lo, rng.randint(lo + 1, n)))
                        idx = tuple(idx)
                        g._add("getitem_after_overlap", [mid.id], {"idx": str(idx)}, (v.np + 1)[idx], y[idx], 0, v.depth + 2)
                        ctx.count("kernels:overlap_declared")
                        continue
                    if kind == "plain":
                        y = da.map_blocks(rec.rec_plain_fn, v.da, tag="plain")
                        declared = False
                    elif kind == "plain_dtype":
                        y = da.map_blocks(rec.rec_declared_fn, v.da, dtype=v.np.dtype, meta=np.empty((0,) * v.ndim, dtype=v.np.dtype))
                        declared = True
                    elif kind == "block_info_dtype":
                        y = da.map_blocks(rec.rec_block_info_fn, v.da, dtype=v.np.dtype, meta=np.empty((0,) * v.ndim, dtype=v.np.dtype), tag="declared")
                        declared = True
                    else:
                        y = da.map_blocks(rec.rec_block_info_fn, v.da, tag="plain")
                        declared = False
                    g._add("rec_map_blocks", [v.id], {"kind": kind}, v.np, y, 0, v.depth + 1)
                except Exception as e:
                    ctx.tab("refused", f"rec_map_blocks:{type(e).__name__}")
            else:
                g.step()
    return g


def check_events(g, ctx, phase_label):
    problems = []
    for s in g.stores:
        for ev in s.nonempty_build_reads():
            mech = "data_read_at_build:zero_dim_source" if s.shape == () else f"data_read_at_build:{phase_label.split(':')[0]}"
            problems.append(("data_read_at_build", f"{phase_label}: non-empty read {rec.enc(ev.index)} ({ev.size} elements) from a source of shape {s.shape} before any graph was executed", mech))
            break
        for ev in s.events:
            if ev.kind == "write":
                problems.append(("source_write", f"{phase_label}: write to a source", "source_write"))
                break
    for c in rec.BLOCKLOG.calls:
        if c["phase"] != "build" or c["size"] == 0:
            if c["phase"] == "build":
                ctx.count("empty_probes_seen")
            continue
        # real data can only come from a source (whose build-phase reads are flagged separately);
        # dtype-inference probes are zeros/ones/uninitialised memory
        # (inference probes are 1-element arrays of fake data; their content may even be recycled memory)
        if c["shape"] == []:
            # a 0-d block: a 0-d meta cannot be empty, so inference over a 0-d input necessarily passes one fake element
            # (the source's own element being read to make that meta is the separate data_read_at_build clause)
            ctx.count("zero_d_meta_probes_seen")
            continue
        user_data = c["size"] > 1
        if c["tag"] in ("declared", "dtype_only") or user_data:
            mech = f"block_fn_called_at_build:{c['tag'] if c['tag'] in ('declared', 'dtype_only') else 'user_data'}"
            problems.append(("block_fn_called_at_build", f"{phase_label}: user block function called on a block of shape {c['shape']} (max value {c['maxval']}, dtype/meta declared={c['tag'] == 'declared'}) before any graph was executed", mech))
            break
        ctx.count("inference_probes_seen")
    return problems


def run_one(rng, ctx):
    rec.BLOCKLOG.clear()
    rec.PHASE["now"] = "build"
    g = build_program(rng, ctx)
    if not g.vars:
        return
    ctx.current_case = {"steps": g.steps}
    problems = check_events(g, ctx, "construction")
    with rec.phase("build"):
        for v in g.vars:
            if v.da is None:
                continue
            for name, fn in ACCESSORS:
                try:
                    fn(v.da)
                    ctx.tab("accessor_calls", name)
                except Exception as e:
                    ctx.tab("accessor_raised", f"{name}:{type(e).__name__}")
                new = check_events(g, ctx, f"{name}:{g.steps[v.id]['op']}")
                if new:
                    problems += new
                    break
            if problems:
                break
        if not problems:
            v = g.vars[-1]
            try:
                pickle.dumps(v.da)
                ctx.tab("accessor_calls", "pickle")
            except Exception:
                ctx.tab("accessor_raised", "pickle")
            problems += check_events(g, ctx, "pickle")
    # sanity: execution must read
    v = g.vars[-1]
    with rec.phase("execute"):
        try:
            v.da.compute()
            ctx.count("programs_executed")
        except Exception as e:
            ctx.tab("compute_raised_left_to_C01", f"{type(e).__name__}:{exc_site(e)}")
    nreads = sum(len(s.reads("execute")) for s in g.stores)
    ctx.count("execute_phase_reads", nreads)
    ctx.count("programs_checked")
    nops = sum(1 for s in g.steps if s["in"])
    multi = any(int(np.prod([len(c) for c in s["p"]["chunks"]])) >= 2 for s in g.steps if s["op"] == "from_store")
    ctx.seen(tuple((s["op"], s["p"].get("fn") if isinstance(s["p"], dict) else None) for s in g.steps), nops >= 2 and multi)
    if len(ctx.samples) < 2 and nops >= 2:
        ctx.sample({"steps": g.steps})
    seen = set()
    for kind, msg, mech in problems:
        if mech in seen:
            continue
        seen.add(mech)
        ctx.violation(kind, f"{msg}\n  program: {g.steps}", case={"steps": g.steps}, mech=mech)


def replay_case(case, ctx):
    ctx.inconc("C29 replay re-generates from the seed; run the quick tier with the same VERIF_SEED")


def finalize(ctx):
    if ctx.counters.get("execute_phase_reads", 0) == 0:
        ctx.inconc("the execute phase never read from a source: harness broken")
    if not ctx.tables.get("accessor_calls"):
        ctx.inconc("no accessor was exercised")


RULE += (
    ' Sources also enter through asarray/asanyarray(dtype=)/operator coercion/as assignment values; kernels include blockwise(dtype=) over re-expanded 0-d values, declared map_overlap + halo-free slice, and a non-empty sample meta=.'
)
