"""C16 - chunk normalization produces valid layouts within the byte limit (contract on normalize_chunks)."""

from __future__ import annotations

import importlib
import random

import dask
import numpy as np

from vf import contracts as K
from vf.common import now

PROPERTY = "C16"
WORKERS = {"quick": 16, "thorough": 16}
TIME = {"quick": 60, "thorough": 240}
TECHNIQUE = "runtime contract (icontract postcondition) on the real normalize_chunks, driven by a seeded spec/shape/dtype/config generator and left active while arrays are created and rechunked through the public API"
RULE = (
    "postcondition on the real normalize_chunks wherever it returns (a raise = spec refused, tallied by exception class): one non-empty "
    "tuple per axis, non-negative integer sizes summing to the axis length, no zero-size chunk on a positive-length axis unless the caller "
    "spelled the axis out explicitly, explicit uniform c gives (c,..,c,r) with 0<r<=c, 'auto'/byte-string axes give blocks <= "
    "max(limit x array.chunk-size-tolerance, one element per auto axis x fixed axes). Specs: int, tuple, list, dict, ndarray, -1, None, "
    "'auto', byte strings, mixtures, explicit tuples; shapes ndim 0-4 with extents {0,1,2,3,5,7,10,17,33,100,1000}; dtypes u1..c16; "
    "previous_chunks uniform/ragged; config array.chunk-size x tolerance {1.0,1.25,2}. Also through da.ones/from_array/rechunk. "
    "distinct = (spec, shape, dtype, limit, previous_chunks, config); non-trivial = accepted and result has >=2 blocks"
)
ASSUMPTIONS = ["array.chunk-size-tolerance is part of 'the configured limit' (documented dask behaviour); with tolerance 1.0 the bound is the bare limit"]
EXTENTS = [0, 1, 2, 3, 5, 7, 10, 17, 33, 100, 1000]
DTYPES = ["u1", "i2", "i4", "f4", "f8", "c16", "bool"]
BYTES = ["100B", "1kiB", "8kiB", "1MiB", "37B", "1B"]


def report(ctx):
    for v in K.flush_to(ctx):
        ctx.violation(v["mech"].split(":")[0], v["msg"], case={"fn": v["fn"], "call": v["call"]}, mech=v["mech"])


def rand_comp(r, n):
    if n == 0:
        return (0,)
    out, left = [], n
    while left > 0:
        c = r.randint(1, max(1, min(left, max(2, n // 3))))
        out.append(c)
        left -= c
    return tuple(out)


def rand_axis_spec(r, s, allow_auto=True):
    k = r.random()
    if k < 0.25:
        return r.randint(1, max(1, s + 2))
    if k < 0.35:
        return -1
    if k < 0.42:
        return None
    if k < 0.62 and allow_auto:
        return "auto"
    if k < 0.72 and allow_auto:
        return r.choice(BYTES)
    if k < 0.9:
        return rand_comp(r, s)
    return s


def gen(r):
    nd = r.choice([0, 1, 1, 2, 2, 2, 3, 3, 4])
    shape = tuple(r.choice(EXTENTS) for _ in range(nd))
    if nd and np.prod([max(s, 1) for s in shape]) > 10**7:
        shape = tuple(min(s, 100) for s in shape)
    k = r.random()
    if k < 0.12:
        spec = r.randint(1, 40)
    elif k < 0.2:
        spec = "auto"
    elif k < 0.26:
        spec = r.choice(BYTES)
    elif k < 0.3:
        spec = -1
    elif k < 0.4 and nd:
        spec = {r.randrange(nd): rand_axis_spec(r, shape[0]) for _ in range(r.randint(1, nd))}
        spec = {ax: rand_axis_spec(r, shape[ax]) for ax in spec}
    elif k < 0.45:
        spec = [rand_axis_spec(r, s, False) for s in shape]
        spec = [x if x is not None else -1 for x in spec]
        if all(isinstance(x, int) for x in spec) and spec and r.random() < 0.5:
            spec = np.array(spec)
    else:
        spec = tuple(rand_axis_spec(r, s) for s in shape)
        bs = {x for x in spec if isinstance(x, str) and x != "auto"}
        if len(bs) > 1:
            b = sorted(bs)[0]
            spec = tuple(b if isinstance(x, str) and x != "auto" else x for x in spec)
    dtype = r.choice(DTYPES + [None, "O"]) if r.random() < 0.9 else None
    limit = r.choice([None, None, None, 64, 1000, 10**5, "1kiB"]) if not isinstance(spec, str) or spec == "auto" else None
    prev = None
    if r.random() < 0.3 and nd:
        style = r.random()
        if style < 0.4:
            c = r.randint(1, 20)
            prev = tuple((min(c, s),) * (s // max(min(c, s), 1)) + ((s % min(c, s),) if min(c, s) and s % min(c, s) else ()) if s else (0,) for s in shape)
        elif style < 0.8:
            prev = tuple(rand_comp(r, s) for s in shape)
        else:
            prev = tuple((1,) if i == 0 else (s,) for i, s in enumerate(shape))
    cfg = {"array.chunk-size": r.choice(["128MiB", "1MiB", "1kiB", "64B", "16B"]), "array.chunk-size-tolerance": r.choice([1.0, 1.25, 1.25, 2.0])}
    return spec, shape, limit, dtype, prev, cfg


def run_all(ctx):
    K.install("normalize")
    CU = importlib.import_module("dask_array._core_utils")
    import dask_array as da

    r = random.Random(f"{ctx.seed}:{ctx.index}")
    n = 60000 if ctx.tier == "quick" else 1500000
    for it in range(n):
        if it % 256 == 0 and now() > ctx.deadline:
            ctx.count("stopped_by_time_cap")
            break
        spec, shape, limit, dtype, prev, cfg = gen(r)
        lim = limit
        if isinstance(lim, str):
            from dask.utils import parse_bytes

            lim = parse_bytes(lim)
        with dask.config.set(cfg):
            try:
                res = CU.normalize_chunks(spec, shape, limit=lim, dtype=dtype, previous_chunks=prev)
                ctx.count("accepted")
                nb = int(np.prod([len(d) for d in res])) if res else 1
                kind = "str" if isinstance(spec, str) else type(spec).__name__
                ctx.tab("spec_kinds_accepted", kind)
                ctx.seen((repr(spec), shape, lim, dtype, prev, tuple(cfg.values())), nb >= 2)
                if len(ctx.samples) < 3 and nb >= 2 and len(shape) >= 2:
                    ctx.sample({"spec": repr(spec), "shape": list(shape), "limit": lim, "dtype": dtype, "previous_chunks": K.enc(prev), "config": cfg, "result": K.enc(res)})
            except Exception as e:
                ctx.tab("refused", type(e).__name__)
        ctx.evaluations += 1
    report(ctx)
    # through the public API
    m = 300 if ctx.tier == "quick" else 6000
    for it in range(m):
        if it % 16 == 0 and now() > ctx.deadline:
            break
        spec, shape, limit, dtype, prev, cfg = gen(r)
        if dtype in (None, "O") or any(s > 100 for s in shape):
            continue
        with dask.config.set(cfg):
            try:
                x = da.ones(shape, chunks=spec, dtype=dtype)
                y = x.rechunk(gen(r)[0]) if r.random() < 0.5 else x
                y.chunks
                ctx.count("api_arrays")
            except Exception as e:
                ctx.tab("api_refused", type(e).__name__)
    report(ctx)


def replay_case(case, ctx):
    K.install("normalize")
    CU = importlib.import_module("dask_array._core_utils")
    c = case["call"]
    spec = c[0]
    spec = {int(k): K.dec(v) for k, v in spec.items()} if isinstance(spec, dict) else K.dec(spec)
    cfg = {k: v for k, v in c[5].items() if v is not None}
    with dask.config.set(cfg):
        try:
            CU.normalize_chunks(spec, K.dec(c[1]), limit=c[2], dtype=c[3], previous_chunks=K.dec(c[4]) if c[4] != "N" else None)
        except Exception as e:
            ctx.count(f"replay_refused:{type(e).__name__}")
    report(ctx)


def finalize(ctx):
    if ctx.counters.get("contract_evals:normalize_chunks", 0) == 0:
        ctx.inconc("contract on normalize_chunks was never evaluated")
