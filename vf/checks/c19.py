"""C19 - windowed and scan operations match their NumPy definitions (directed differential monitor)."""

from __future__ import annotations

import random
import warnings

import numpy as np

from vf.common import exc_site, msg_key, short_tb
from vf.gen import absmax, dyadic, leaf_values
from vf.oracles import same

PROPERTY = "C19"
WORKERS = {"quick": 16, "thorough": 16}
CASES = {"quick": 1500, "thorough": 12000}
TIME = {"quick": 45, "thorough": 240}
CASE_TIMEOUT = 120
TECHNIQUE = (
    "runtime monitoring with NumPy reference definitions: np.lib.stride_tricks.sliding_window_view + NumPy reductions; a whole-array "
    "reference for overlap / map_overlap (the kernel applied to the array padded with the NumPy mode each boundary kind implements, then "
    "trimmed; per-block reference when trim=False); bottleneck on the whole array; np.diff / np.gradient; NumPy scans. The workload "
    "enumerates the window/depth versus chunk-size relations; an observer counts which plan (native kernel vs overlap) was taken"
)
RULE = (
    "kinds: sliding_window_view alone / under sum, mean, min, max, prod, nansum, nanmean, nanmin, nanmax, var, nanvar, std (keepdims both "
    "ways, 1-d and 2-d windows); overlap + trim_overlap; map_overlap with boundary none/reflect/periodic/nearest/constant x depth int / "
    "dict / asymmetric x trim x 1-2 inputs; bottleneck move_sum/mean/min/max(min_count); diff(n, prepend/append); gradient(spacing, "
    "edge_order); cumsum/cumprod/nancumsum/nancumprod sequential and blelloch, axis None. Chunk relations: window <, =, > block, window "
    "spanning many blocks, trailing block <= depth, size-1 blocks, uneven blocks, window = axis length; extents <= 40. distinct = (kind, "
    "reducer/boundary, window-vs-chunk class); non-trivial = multi-block axis under the window and a non-empty result"
)
ASSUMPTIONS = [
    "NumPy/bottleneck definitions as ground truth; boundary kinds map to np.pad modes as implemented in _overlap.py (reflect=symmetric, periodic=wrap, nearest=edge)",
    "map_overlap kernels are zero-filled shift sums / local maxima with radius <= depth, so the per-block and whole-array results must coincide exactly",
]

PLANS = {"native_sliding": 0, "moving": 0, "overlap": 0}


def setup(ctx):
    try:
        from dask_array.reductions import _sliding_window as SW

        for cls, key in ((SW.SlidingWindowReduction, "native_sliding"), (SW.MovingWindowReduction, "moving")):
            orig = cls._layer
            if getattr(orig, "_vf", False):
                continue

            def layer(self, _o=orig, _k=key):
                PLANS[_k] += 1
                return _o(self)

            layer._vf = True
            cls._layer = layer
        from dask_array import _overlap as OV

        o2 = OV.OverlapInternal._layer
        if not getattr(o2, "_vf", False):

            def layer2(self, _o=o2):
                PLANS["overlap"] += 1
                return _o(self)

            layer2._vf = True
            OV.OverlapInternal._layer = layer2
    except Exception:
        pass


def chunk_axis(rng, n, w, cls=None):
    """A chunking of an axis of length n chosen relative to a window/depth w."""
    if n == 0:
        return (0,), "empty"
    cls = cls or rng.choice(["lt", "eq", "gt", "many", "tail", "ones", "uneven", "whole"])
    if cls == "whole" or n == 1:
        return (n,), "whole"
    if cls == "ones":
        return (1,) * n, "ones"
    if cls == "lt":  # window smaller than the block
        c = min(n, max(w + 1, rng.randint(w + 1, max(w + 1, n))))
    elif cls == "eq":
        c = min(n, max(1, w))
    elif cls == "gt":  # window larger than the block
        c = max(1, min(n, rng.randint(1, max(1, w - 1))))
    elif cls == "many":  # window spans many blocks
        c = max(1, min(n, max(1, w // 4)))
    elif cls == "tail":
        c = max(1, min(n - 1, n - rng.randint(1, max(1, min(w, n - 1)))))
        return (c, n - c), "tail"
    else:
        out, left = [], n
        while left > 0:
            k = rng.randint(1, max(1, min(left, max(2, w + 2))))
            out.append(k)
            left -= k
        return tuple(out), "uneven"
    q, r = divmod(n, c)
    return (c,) * q + ((r,) if r else ()), cls


def base_array(p):
    return leaf_values(tuple(p["shape"]), p["dtype"], p["vals"], p["seed"])


def k_shift(x, lo, hi):
    """Zero-filled shift sum: out[i] = x[i] + sum_{s<=lo[ax]} x[i-s] + sum_{s<=hi[ax]} x[i+s] along every axis."""
    out = x.copy()
    for ax in range(x.ndim):
        n = x.shape[ax]
        for s in range(1, lo[ax] + 1):
            if s >= n:
                break
            a = [slice(None)] * x.ndim
            b = [slice(None)] * x.ndim
            a[ax] = slice(s, n)
            b[ax] = slice(0, n - s)
            out[tuple(a)] += x[tuple(b)]
        for s in range(1, hi[ax] + 1):
            if s >= n:
                break
            a = [slice(None)] * x.ndim
            b = [slice(None)] * x.ndim
            a[ax] = slice(0, n - s)
            b[ax] = slice(s, n)
            out[tuple(a)] += x[tuple(b)]
    return out


def k_shift_kernel(x, lo=None, hi=None):
    return k_shift(x, lo, hi)


def k_two(x, y, lo=None, hi=None):
    return k_shift(x, lo, hi) - 2 * k_shift(y, lo, hi)


NP_PAD = {"reflect": "symmetric", "periodic": "wrap", "nearest": "edge"}


def pad_whole(a, lo, hi, boundary):
    if boundary == "none":
        return a, [0] * a.ndim, [0] * a.ndim
    pw = list(zip(lo, hi))
    if isinstance(boundary, (int, float)):
        return np.pad(a, pw, mode="constant", constant_values=boundary), lo, hi
    return np.pad(a, pw, mode=NP_PAD[boundary]), lo, hi


def gen_case(rng, big):
    kind = rng.choice(["swv_reduce", "swv_reduce", "swv", "swv2d", "overlap", "map_overlap", "map_overlap", "move", "diff", "gradient", "cum", "cum"])
    mx = 40 if big else 24
    nd = rng.choice([1, 1, 2, 2, 3])
    shape = [rng.randint(1, mx if nd == 1 else max(4, mx // nd)) for _ in range(nd)]
    ax = rng.randrange(nd)
    p = {"kind": kind, "shape": shape, "axis": ax - (nd if rng.random() < 0.3 else 0), "dtype": rng.choice(["f8", "f8", "f8", "i8", "f4"]), "vals": "perm", "seed": rng.randrange(10**6)}
    n = shape[ax]
    if kind in ("swv", "swv_reduce", "move"):
        w = rng.choice([1, 2, 3, max(1, n // 2), max(1, n - 1), n, rng.randint(1, n)])
        p["w"] = w
        if kind == "move":
            p["dtype"] = "f8"
            p["w"] = max(2, min(w, n)) if n >= 2 else 1
            p["fn"] = rng.choice(["move_sum", "move_mean", "move_min", "move_max"])
            p["min_count"] = rng.choice([None, None, 1, p["w"]])
        if kind == "swv_reduce":
            p["fn"] = rng.choice(["sum", "mean", "min", "max", "prod", "nansum", "nanmean", "nanmin", "nanmax", "var", "nanvar", "std"])
            p["keepdims"] = rng.random() < 0.3
            if p["fn"].startswith("nan") or rng.random() < 0.2:
                p["dtype"] = "f8"
                p["vals"] = "nan" if rng.random() < 0.6 else "perm"
        wrel = p["w"]
    elif kind == "swv2d":
        if nd < 2:
            shape.append(rng.randint(2, 8))
            nd = 2
        a1, a2 = rng.sample(range(nd), 2)
        p["axes"] = [a1, a2]
        p["ws"] = [rng.randint(1, shape[a1]), rng.randint(1, shape[a2])]
        p["fn"] = rng.choice([None, "sum", "max", "mean"])
        wrel = max(p["ws"])
    elif kind in ("overlap", "map_overlap"):
        p["boundary"] = rng.choice(["none", "reflect", "periodic", "nearest", 0, 5])
        asym = p["boundary"] == "none" and rng.random() < 0.35
        lo, hi = [], []
        for d in range(nd):
            k = rng.choice([0, 1, 1, 2, 3]) if d != ax else rng.choice([1, 2, 3, max(1, shape[d] // 3)])
            k = min(k, shape[d])
            if asym and rng.random() < 0.7:
                k2 = min(rng.choice([0, 1, 2]), shape[d])
                lo.append(k)
                hi.append(k2)
            else:
                lo.append(k)
                hi.append(k)
        p["lo"], p["hi"] = lo, hi
        p["depth_form"] = "dict" if asym or rng.random() < 0.5 else "int" if len(set(lo)) == 1 else "tuple"
        p["trim"] = rng.random() < 0.8
        p["two_inputs"] = kind == "map_overlap" and rng.random() < 0.3
        wrel = max(lo + hi)
    elif kind == "diff":
        p["n"] = rng.choice([0, 1, 1, 2, 3])
        p["pre"] = rng.choice([None, None, "scalar", "array"])
        p["app"] = rng.choice([None, None, "scalar"])
        wrel = p["n"]
    elif kind == "gradient":
        p["dtype"] = "f8"
        p["edge_order"] = rng.choice([1, 2])
        p["spacing"] = rng.choice(["unit", "scalar", "coords"])
        for d in range(nd):
            shape[d] = max(shape[d], p["edge_order"] + 1)
        wrel = 2
    else:
        p["fn"] = rng.choice(["cumsum", "cumprod", "nancumsum", "nancumprod"])
        p["method"] = rng.choice(["sequential", "blelloch"])
        if rng.random() < 0.2:
            p["axis"] = None
        if p["fn"].startswith("nan"):
            p["dtype"] = "f8"
            p["vals"] = "nan"
        p["out_dtype"] = rng.choice([None, None, None, "f8", "f4"])
        if p["fn"] == "cumsum" and p["method"] == "blelloch" and p.get("axis", 0) is not None and rng.random() < 0.3:
            # an associative but NOT commutative merge: strings under + (the scan must keep the operands in order)
            p["strings"] = True
            p["out_dtype"] = None
        wrel = 2
    p["shape"] = shape
    chunks, classes = [], []
    for d in range(nd):
        c, cls = chunk_axis(rng, shape[d], max(1, wrel) if d == ax or kind in ("swv2d", "overlap", "map_overlap", "gradient") else 2)
        chunks.append(list(c))
        classes.append(cls)
    if kind == "map_overlap" and nd == 2 and shape[0] >= 1 and shape[1] >= 2 and rng.random() < 0.25:
        # drop_axis together with a per-axis boundary dict: the kept overlapped axis has its own boundary kind
        p["drop0"] = {"d": rng.randint(1, min(3, shape[1])), "bkinds": [rng.choice(["none", "reflect", "periodic", "nearest", 0]) for _ in range(2)]}
        chunks[0] = [shape[0]]
    p["chunks"] = chunks
    p["cls"] = classes[ax]
    return p


def _sum_axis0(b):
    return b.sum(axis=0)


def depth_arg(p, nd):
    lo, hi = p["lo"], p["hi"]
    if p["depth_form"] == "int" and lo == hi and len(set(lo)) == 1:
        return lo[0]
    if p["depth_form"] == "tuple" and lo == hi:
        return tuple(lo)
    return {d: (lo[d] if lo[d] == hi[d] else (lo[d], hi[d])) for d in range(nd)}


def boundary_arg(p):
    return p["boundary"]


def check_case(p, ctx):
    import dask_array as da

    a = base_array(p)
    if p["kind"] in ("cum",) and p["fn"].endswith("prod") and a.size:
        # powers of two with exponents in {-1, 0, 1} (floats) / values in {1, 2} (ints): products stay finite in float32
        # for <= 120 elements and are exact, so an overflow cannot separate the two evaluation orders
        if a.size > 120:
            a = a.ravel()[:120].reshape((-1,) + (1,) * (a.ndim - 1)) if a.ndim else a
            p = dict(p, chunks=[[a.shape[0]]] + [[1]] * (a.ndim - 1))
        e = (np.abs(a).astype(np.int64) % 3) - 1
        sign = np.where(np.asarray(a) < 0, -1, 1)
        a = (sign * 2.0 ** e).astype(p["dtype"]) if a.dtype.kind == "f" else (np.abs(a).astype(np.int64) % 2 + 1).astype(p["dtype"])
        if p["vals"] == "nan":
            m = np.random.default_rng(p["seed"]).random(a.shape) < 0.2
            a = a.astype("f8")
            a[m] = np.nan
    kind = p["kind"]
    nd = a.ndim
    x = da.from_array(a, chunks=tuple(tuple(c) for c in p["chunks"]))
    inexact = 0
    mag = absmax(a)
    for k in PLANS:
        PLANS[k] = 0
    with warnings.catch_warnings():
        warnings.simplefilter("ignore")
        with np.errstate(all="ignore"):
            try:
                if kind in ("swv", "swv_reduce"):
                    ev = np.lib.stride_tricks.sliding_window_view(a, p["w"], axis=p["axis"])
                    y = da.sliding_window_view(x, p["w"], axis=p["axis"])
                    label = f"swv"
                    if kind == "swv_reduce":
                        fn = p["fn"]
                        if fn == "prod":
                            a2 = (np.sign(a) * (np.abs(a) % 3 + 0.5)).astype(a.dtype) if a.dtype.kind == "f" else (a % 3 + 1).astype(a.dtype)
                            x = da.from_array(a2, chunks=x.chunks)
                            ev = np.lib.stride_tricks.sliding_window_view(a2, p["w"], axis=p["axis"])
                            y = da.sliding_window_view(x, p["w"], axis=p["axis"])
                        ev = getattr(np, fn)(ev, axis=-1, keepdims=p["keepdims"])
                        y = getattr(da, fn)(y, axis=-1, keepdims=p["keepdims"])
                        label = f"swv.{fn}"
                        inexact = 0 if fn in ("min", "max", "nanmin", "nanmax") or (fn in ("sum", "nansum") and dyadic(a)) else 1
                        if fn in ("var", "nanvar", "std"):
                            mag = mag * mag
                elif kind == "swv2d":
                    ev = np.lib.stride_tricks.sliding_window_view(a, tuple(p["ws"]), axis=tuple(p["axes"]))
                    y = da.sliding_window_view(x, tuple(p["ws"]), axis=tuple(p["axes"]))
                    label = "swv2d"
                    if p["fn"]:
                        ev = getattr(np, p["fn"])(ev, axis=(-2, -1))
                        y = getattr(da, p["fn"])(y, axis=(-2, -1))
                        label = f"swv2d.{p['fn']}"
                        inexact = 0 if p["fn"] == "max" or (p["fn"] == "sum" and dyadic(a)) else 1
                elif kind == "overlap":
                    lo, hi = p["lo"], p["hi"]
                    if lo != hi:
                        ctx.count("not_applicable")
                        return [], False, "overlap"
                    depth = {d: lo[d] for d in range(nd)}
                    bnd = {d: p["boundary"] for d in range(nd)}
                    g = da.overlap(x, depth=depth, boundary=bnd)
                    y = da.trim_overlap(g, depth=depth, boundary=bnd)
                    ev = a
                    label = f"overlap+trim.{p['boundary']}"
                    # the overlapped array itself: every interior block carries its neighbours' halo
                    gv = g.compute()
                    padded, plo, phi = pad_whole(a, lo, hi, p["boundary"])
                    exp_blocks_total = 1
                    # total size check per axis: sum over blocks of (block + lo + hi) minus missing halos at the edges for 'none'
                    for d in range(nd):
                        nb = len(g.chunks[d])
                        tot = sum(x_ for x_ in g.chunks[d])
                        inner = a.shape[d] + (nb - 1) * (lo[d] + hi[d]) + (0 if p["boundary"] == "none" else lo[d] + hi[d])
                        if tot != inner:
                            return [("overlap_size", f"{label}: overlapped axis {d} has total size {tot}, expected {inner} (chunks {g.chunks[d]})", f"overlap:size:{p['boundary']}")], True, label
                    if gv.shape != tuple(sum(c) for c in g.chunks):
                        return [("overlap_shape", f"{label}: computed overlapped shape {gv.shape} != advertised {tuple(sum(c) for c in g.chunks)}", f"overlap:shape:{p['boundary']}")], True, label
                elif kind == "map_overlap" and p.get("drop0"):
                    d0 = p["drop0"]
                    bk = {0: d0["bkinds"][0], 1: d0["bkinds"][1]}
                    y = da.map_overlap(_sum_axis0, x, depth={0: 0, 1: d0["d"]}, boundary=bk, drop_axis=0, dtype=a.dtype)
                    ev = a.sum(axis=0).astype(a.dtype)  # the halos along the kept axis are trimmed again: no window in the kernel
                    label = f"map_overlap.drop_axis.{bk[0]}.{bk[1]}"
                    ctx.count("map_overlap_drop_axis_cases")
                elif kind == "map_overlap":
                    lo, hi = p["lo"], p["hi"]
                    padded, plo, phi = pad_whole(a, lo, hi, p["boundary"])
                    b = a[::-1].copy() if a.ndim else a
                    kw = dict(lo=lo, hi=hi)
                    if p["two_inputs"]:
                        padded_b, _, _ = pad_whole(b, lo, hi, p["boundary"])
                        whole = k_two(padded, padded_b, lo, hi)
                        xb = da.from_array(b, chunks=x.chunks)
                        args = (k_two, x, xb)
                    else:
                        whole = k_shift(padded, lo, hi)
                        args = (k_shift_kernel, x)
                    if p["boundary"] == "none":
                        ev = whole
                    else:
                        ev = whole[tuple(slice(lo[d], whole.shape[d] - hi[d]) for d in range(nd))]
                    label = f"map_overlap.{p['boundary']}.{'asym' if lo != hi else 'sym'}"
                    if not p["trim"]:
                        ctx.count("trim_false_cases")
                        # per-block reference: kernel applied to each block extended by its halo, untrimmed, concatenated on the grid
                        y = da.map_overlap(*args, depth=depth_arg(p, nd), boundary=boundary_arg(p), trim=False, dtype=a.dtype, **kw)
                        label += ".notrim"
                        # map_overlap documents that blocks smaller than the depth are merged first: recover the effective block
                        # structure from the advertised untrimmed chunks (block = advertised - halos) and require it to tile the input
                        eff = []
                        for d in range(nd):
                            edge = p["boundary"] != "none"
                            last = len(y.chunks[d]) - 1
                            eff.append(tuple(int(c) - (lo[d] if (i > 0 or edge) else 0) - (hi[d] if (i < last or edge) else 0) for i, c in enumerate(y.chunks[d])))
                        if any(sum(e) != a.shape[d] or min(e) < 0 for d, e in enumerate(eff)):
                            return [("untrimmed_chunks_inconsistent", f"{label}: advertised chunks {y.chunks} minus the halos {lo}/{hi} do not tile the input shape {a.shape}", "map_overlap:notrim:advertised_chunks")], True, label
                        ev = untrimmed_reference(a, b if p["two_inputs"] else None, y, eff, lo, hi, p["boundary"])
                        if ev is None:
                            ctx.count("not_applicable")
                            return [], False, label
                    else:
                        y = da.map_overlap(*args, depth=depth_arg(p, nd), boundary=boundary_arg(p), trim=True, dtype=a.dtype, **kw)
                elif kind == "move":
                    import bottleneck as bn

                    ev = getattr(bn, p["fn"])(a.copy(), p["w"], min_count=p["min_count"], axis=p["axis"])
                    axn = p["axis"] % nd
                    y = x.map_overlap(getattr(bn, p["fn"]), depth={axn: (p["w"] - 1, 0)}, dtype="f8", window=p["w"], min_count=p["min_count"], axis=axn)
                    label = p["fn"]
                    inexact = 0 if p["fn"] in ("move_min", "move_max") else 1
                elif kind == "diff":
                    kw = {}
                    nkw = {}
                    if p["pre"] == "scalar":
                        kw["prepend"] = nkw["prepend"] = 7
                    elif p["pre"] == "array":
                        shp = list(a.shape)
                        shp[p["axis"]] = 2
                        pre = np.full(shp, 3, dtype=a.dtype)
                        nkw["prepend"] = pre
                        kw["prepend"] = da.from_array(pre, chunks=1)
                    if p["app"] == "scalar":
                        kw["append"] = nkw["append"] = -2
                    ev = np.diff(a, n=p["n"], axis=p["axis"], **nkw)
                    y = da.diff(x, n=p["n"], axis=p["axis"], **kw)
                    label = f"diff.n{p['n']}"
                elif kind == "gradient":
                    axn = p["axis"] % nd
                    if p["spacing"] == "unit":
                        ev = np.gradient(a, axis=axn, edge_order=p["edge_order"])
                        y = da.gradient(x, axis=axn, edge_order=p["edge_order"])
                    elif p["spacing"] == "scalar":
                        ev = np.gradient(a, 0.5, axis=axn, edge_order=p["edge_order"])
                        y = da.gradient(x, 0.5, axis=axn, edge_order=p["edge_order"])
                    else:
                        coords = np.cumsum(np.arange(1, a.shape[axn] + 1) * 0.25)
                        ev = np.gradient(a, coords, axis=axn, edge_order=p["edge_order"])
                        y = da.gradient(x, coords, axis=axn, edge_order=p["edge_order"])
                    label = f"gradient.{p['spacing']}.eo{p['edge_order']}"
                    inexact = 1
                else:
                    fn = p["fn"]
                    kw = {}
                    if p.get("out_dtype"):
                        kw["dtype"] = p["out_dtype"]
                    if p.get("strings") and a.size:
                        a = np.array([chr(97 + i % 26) + ("" if i < 26 else str(i // 26)) for i in range(a.size)], dtype=object).reshape(a.shape)
                        x = da.from_array(a, chunks=x.chunks)
                        ctx.count("non_commutative_scans")
                    ev = getattr(np, fn)(a, axis=p["axis"], **kw)
                    y = getattr(da, fn)(x, axis=p["axis"], method=p["method"], **kw)
                    label = f"{fn}.{p['method']}"
                    inexact = 0 if (fn in ("cumsum", "nancumsum") and dyadic(a) and p.get("out_dtype") != "f4" and a.dtype != np.float32) or (a.dtype.kind in "iu" and not p.get("out_dtype")) else 1
                    if fn.endswith("prod"):
                        mag = float(np.nanmax(np.abs(ev))) if np.size(ev) and np.isfinite(np.nanmax(np.abs(ev))) else mag
            except NotImplementedError as e:
                ctx.tab("refused", f"{kind}:NotImplementedError")
                return [], False, kind
            except Exception as e:
                ctx.tab("refused_at_build", f"{kind}:{type(e).__name__}:{msg_key(e)}")
                return [], False, kind
            try:
                got = y.compute()
            except Exception as e:
                return [("compute_raises", f"{label}: {short_tb(e)}", f"{label.split('.')[0]}:raise:{type(e).__name__}:{exc_site(e)}:{msg_key(e)}")], True, label
    ctx.count("results_compared")
    for k, v in PLANS.items():
        if v:
            ctx.tab("plans", f"{label.split('.')[0]}|{k}")
    why = same(ev, got, inexact, mag, check_dtype=kind not in ("move",))
    problems = []
    if why:
        problems.append(("differs_from_definition", f"{label}: {why}", f"{label}:mismatch:{why.split()[0]}"))
    elif np.ndim(ev) >= 1 and np.size(ev):
        # a slice of the result (the optimizer pushes it through the window operation: halos near the cut and near the
        # array's edges must still come from the whole array)
        r = random.Random(p["seed"] + 17)
        idx = []
        for n in np.shape(ev):
            t = r.random()
            if t < 0.3 or n < 2:
                idx.append(slice(None))
            elif t < 0.45:
                idx.append(r.randrange(n))
            else:
                lo = r.choice([0, 1, 2, r.randrange(n)])
                lo = min(lo, n - 1)
                hi = r.choice([n, n - 1, n - 2, r.randint(lo + 1, n)])
                hi = max(lo + 1, min(hi, n))
                idx.append(slice(lo, hi))
        idx = tuple(idx)
        try:
            gs = y[idx].compute()
            ctx.count("sliced_results_compared")
            why2 = same(np.asarray(ev)[idx], gs, inexact, mag, check_dtype=kind not in ("move",))
            if why2:
                problems.append(("slice_of_result_differs", f"{label}[{idx}]: {why2}", f"{label}:slice:{why2.split()[0]}"))
        except Exception as e:
            problems.append(("slice_of_result_raises", f"{label}[{idx}]: {short_tb(e)}", f"{label.split('.')[0]}:slice:raise:{type(e).__name__}:{exc_site(e)}:{msg_key(e)}"))
    try:
        adv = tuple(sum(c) for c in y.chunks)
        if tuple(np.shape(got)) != adv and not any(c != c for dim in y.chunks for c in dim):
            problems.append(("advertised_shape", f"{label}: computed shape {np.shape(got)} != advertised {adv}", f"{label.split('.')[0]}:advertised_shape"))
    except Exception:
        pass
    axn = (p["axis"] or 0) % max(1, nd)
    multi = len(p["chunks"][axn]) >= 2 if p["chunks"] else False
    return problems, multi and np.size(ev) > 0, label


def untrimmed_reference(a, b, y, chunks, lo, hi, boundary):
    """map_overlap(trim=False): kernel applied to every block extended by its halo, concatenated on the block grid."""
    nd = a.ndim
    padded, plo, phi = pad_whole(a, lo, hi, boundary)
    padded_b = pad_whole(b, lo, hi, boundary)[0] if b is not None else None
    starts = [np.concatenate([[0], np.cumsum(c)]) for c in chunks]

    def block(idx):
        sl = []
        for d, i in enumerate(idx):
            s, e = int(starts[d][i]), int(starts[d][i + 1])
            if boundary == "none":
                s2 = max(0, s - lo[d])
                e2 = min(a.shape[d], e + hi[d])
            else:
                s2 = s  # padded coordinates: block starts lo earlier, i.e. at s in padded coords
                e2 = e + lo[d] + hi[d]
            sl.append(slice(s2, e2))
        pa = padded[tuple(sl)]
        if padded_b is not None:
            return k_two(pa, padded_b[tuple(sl)], lo, hi)
        return k_shift(pa, lo, hi)

    def rec(prefix, d):
        if d == nd:
            return block(prefix)
        return np.concatenate([rec(prefix + (i,), d + 1) for i in range(len(chunks[d]))], axis=d)

    if nd == 0:
        return None
    return rec((), 0)


def run_one(rng, ctx):
    p = gen_case(rng, ctx.tier == "thorough")
    ctx.current_case = p
    problems, nontrivial, label = check_case(p, ctx)
    ctx.count("cases_checked")
    ctx.seen((label, p["cls"]), nontrivial)
    ctx.tab("classes", f"{label}|{p['cls']}")
    if len(ctx.samples) < 3 and nontrivial:
        ctx.sample(p)
    seen = set()
    for kind, msg, mech in problems:
        if mech in seen:
            continue
        seen.add(mech)
        ctx.violation(kind, f"{msg}\n  case: {p}", case=p, mech=mech)


def replay_case(case, ctx):
    problems, _, _ = check_case(case, ctx)
    seen = set()
    for kind, msg, mech in problems:
        if mech not in seen:
            seen.add(mech)
            ctx.violation(kind, msg, case=case, mech=mech)


def finalize(ctx):
    if ctx.counters.get("results_compared", 0) == 0:
        ctx.inconc("nothing was compared")


def finalize_merged(m, tier):
    plans = m["tables"].get("plans", {})
    if not any("native_sliding" in k for k in plans):
        m["inconclusive"].append("the native sliding-window kernel plan was never taken")
    if not any("overlap" in k for k in plans):
        m["inconclusive"].append("the overlap plan was never taken")


RULE += (
    ' Every result is also sliced at random and compared with the slice of the reference; blelloch cumsum over object-dtype strings (non-commutative merge).'
)
