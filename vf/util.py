"""Small helpers shared by checks."""

from __future__ import annotations

import math

import dask
import numpy as np
from dask.core import flatten


def fresh(x):
    """A new collection over the same expression (no cached lowering)."""
    return type(x)(x.expr)


def graph_of(x, optimize):
    """(converted graph, nested keys) of a *fresh* collection under optimize-graph=optimize."""
    from vf.sched import materialize

    with dask.config.set({"array.optimize-graph": optimize}):
        y = fresh(x)
        dsk = materialize(y)
        keys = y.__dask_keys__()
    return y, dsk, keys


def key_grid(name, numblocks):
    def rec(prefix, dims):
        if not dims:
            return (name,) + prefix
        return [rec(prefix + (i,), dims[1:]) for i in range(dims[0])]

    if not numblocks:
        return [(name,)]
    return rec((), tuple(numblocks))


def block_shape(chunks, idx):
    return tuple(chunks[d][i] for d, i in enumerate(idx))


def shapes_agree(expected, got):
    if len(expected) != len(got):
        return False
    for e, g in zip(expected, got):
        if isinstance(e, float) and math.isnan(e):
            continue
        if int(e) != int(g):
            return False
    return True


def has_nan_chunks(chunks):
    return any(isinstance(c, float) and math.isnan(c) for dim in chunks for c in dim)


def closure_has_zero(g, v):
    seen = set()
    stack = [v.id]
    while stack:
        i = stack.pop()
        if i in seen:
            continue
        seen.add(i)
        if g.vars[i].np.size == 0:
            return True
        stack.extend(g.steps[i]["in"])
    return False


def root_class(x):
    return type(x.expr).__name__


def tally_prog(g, ctx):
    for (op, exc), n in g.refused.items():
        ctx.tab("refused", f"{op}:{exc}", n)
    for op, n in g.attempted.items():
        ctx.tab("attempted", op, n)


def tally_ops(steps, ctx):
    for s in steps:
        fn = s["p"].get("fn") if isinstance(s["p"], dict) else None
        ctx.tab("ops", s["op"] if fn is None else f"{s['op']}:{fn}")


def max_blocks(g):
    m = 1
    for v in g.vars:
        if v.da is not None:
            try:
                m = max(m, int(np.prod(v.da.numblocks)))
            except Exception:
                pass
    return m


# operations whose own implementation records the block count of its input (map_blocks(chunks=...) inside the library):
# the sliding-window family and repeat
WINDOW_OPS = {"sliding_reduce", "sliding_window_view", "move_window", "map_overlap", "diff", "cumulative", "repeat"}


def baked_grid_key(mech, steps):
    """The recorded finding 'Dimension N has k blocks, adjust_chunks specified with m blocks' is about a consumer that
    baked its input's block count (the library's own sliding-window kernels and repeat) sitting over a rewrite no gate
    covers.  The same error in a program without such an operation means a gated pushdown changed the grid under the
    consumer: a different mechanism, keyed apart so that it is reported.  (Programs with a zero-length axis are not keyed
    apart: there the grid also moves when empty pieces of a concatenation are dropped, which is the recorded finding.)"""
    if "Dimension_has_blocks" in mech and not any(s.get("op") in WINDOW_OPS for s in steps):
        return mech + ":without_window_op"
    return mech
