"""Module-level (picklable) block kernels used by generated programs."""

from __future__ import annotations

import numpy as np


def k_add_one(x):
    return x + 1


def k_double(x):
    return x * 2


def k_neg(x):
    return -x


def k_add(x, y):
    return x + y


def k_sub_scaled(x, y, scale=2):
    return x - scale * y


def k_outer_expand(x):
    # new_axis kernel: adds a trailing axis of length 1
    return x[..., None]


def k_sum_last(x):
    # drop_axis kernel on a single-block last axis
    return x.sum(axis=-1)


def k_sum_first(x):
    return x.sum(axis=0)


def k_transpose2(x):
    return x.T


def k_shift_sum(x):
    """1-radius shift-sum along every axis with zero fill (for map_overlap, depth>=1)."""
    out = x.copy()
    for ax in range(x.ndim):
        n = x.shape[ax]
        if n < 2:
            continue
        sl_lo = [slice(None)] * x.ndim
        sl_hi = [slice(None)] * x.ndim
        sl_lo[ax] = slice(0, n - 1)
        sl_hi[ax] = slice(1, n)
        left = np.zeros_like(x)
        left[tuple(sl_hi)] = x[tuple(sl_lo)]
        right = np.zeros_like(x)
        right[tuple(sl_lo)] = x[tuple(sl_hi)]
        out = out + left + right
    return out


def k_local_max(x, axis=0, radius=1):
    """Running max over [i-radius, i+radius] along axis, edge-truncated."""
    n = x.shape[axis]
    out = x.copy()
    for s in range(1, radius + 1):
        if n <= s:
            break
        a = [slice(None)] * x.ndim
        b = [slice(None)] * x.ndim
        a[axis] = slice(s, n)
        b[axis] = slice(0, n - s)
        out[tuple(b)] = np.maximum(out[tuple(b)], x[tuple(a)])
        out[tuple(a)] = np.maximum(out[tuple(a)], x[tuple(b)])
    return out


def k_bw_add(x, y):
    return x + y


def k_bw_outer(x, y):
    return x[:, None] * y[None, :]


def k_ident(v):
    return v


def k_add_offset(x, offset=0):
    return x + offset


def k_block_submax(x):
    """Block-local: the result depends on where the block boundaries are (what a grid-sensitive consumer looks like)."""
    x = np.asarray(x)
    return x - x.max() if x.size else x


KERNELS = {f.__name__: f for f in list(globals().values()) if callable(f) and getattr(f, "__name__", "").startswith("k_")}
