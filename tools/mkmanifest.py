#!/usr/bin/env python3
"""Regenerate MANIFEST.json from the check modules that exist (vf/checks/cNN.py)."""
import importlib, json, os, sys

HERE = os.path.dirname(os.path.dirname(os.path.abspath(__file__)))
sys.path.insert(0, HERE)

NOT_APPLICABLE = {
    "C22": "the native Rust extension cannot be built in this sandbox (pyo3 sources absent from the offline cargo registry), "
    "so no execution of a native layer exists for a runtime monitor to observe; see DESIGN.md C22",
}
PENDING = "monitor for this property is designed in DESIGN.md but not built yet; not claimed until it runs silent on the unchanged tree"

ENGINES = [
    {"name": "vf.gen", "path": "vf/gen.py", "kind_free_text": "seeded program generator with NumPy mirror (G)"},
    {"name": "vf.sched", "path": "vf/sched.py", "kind_free_text": "instrumented task scheduler: random topological orders, per-task value fingerprints, input re-fingerprinting (S)"},
    {"name": "vf.runner", "path": "vf/runner.py", "kind_free_text": "fans out worker subprocesses, merges monitor observations, writes evidence, known-findings classifier"},
]


def main():
    props = [json.loads(l) for l in open(os.path.join(HERE, "properties.jsonl"))]
    checks, na = [], []
    for p in props:
        pid = p["id"]
        path = os.path.join(HERE, "vf", "checks", pid.lower() + ".py")
        if pid in NOT_APPLICABLE:
            na.append({"property_id": pid, "reason": NOT_APPLICABLE[pid]})
            continue
        claimed = False
        if os.path.exists(path):
            mod = importlib.import_module(f"vf.checks.{pid.lower()}")
            claimed = getattr(mod, "CLAIMED", True)
        if not claimed:
            na.append({"property_id": pid, "reason": PENDING})
            continue
        checks.append(
            {
                "property_id": pid,
                "quick_cmd": f"./check {pid} --tier quick",
                "thorough_cmd": f"./check {pid} --tier thorough",
                "evidence_file": f"evidence/{pid}.json",
                "replay_cmd_template": f"./check {pid} --replay {{path}}",
                "engine": "vf.runner",
                "level_claimed": {
                    "category": getattr(mod, "LEVEL", "exploration"),
                    "text": getattr(mod, "LEVEL_TEXT", "held on the executions observed: " + mod.RULE),
                    "design_ref": f"DESIGN.md section 1, {pid}",
                },
                "level_note": "; ".join(getattr(mod, "ASSUMPTIONS", [])) or "NumPy as ground truth",
                "technique": getattr(mod, "TECHNIQUE", "runtime monitoring: differential oracle over generated programs"),
            }
        )
    man = {
        "version": 1,
        "setup_cmd": "/venv/bin/python -m vf.setup",
        "hooks": {
            "guard": "DASK_ARRAY_VERIF",
            "enable": "no source hooks: every monitor attaches from the harness (class/method patching, custom scheduler, recording inputs); the guard name is reserved",
            "baseline_off_cmd": "cd /repo && /venv/bin/python -m pytest -ra -q -p no:cacheprovider --timeout=900 --continue-on-collection-errors",
            "source_commits": [],
            "add_only": True,
        },
        "engines": ENGINES,
        "checks": checks,
        "not_applicable": na,
        "notes": "All checks are runtime monitors over executions of /repo's working tree (PYTHONPATH=/repo). Exit 2 = inconclusive (never folded into held).",
    }
    json.dump(man, open(os.path.join(HERE, "MANIFEST.json"), "w"), indent=1)
    print(f"{len(checks)} checks claimed, {len(na)} not applicable/pending")


if __name__ == "__main__":
    main()
