#!/bin/bash
# usage: tools/seed_list.sh "C06-m1:C06,C23 C01-m2:C06 ..."  (run from a snapshot via seed_snap2.sh); src dir derived from id
cd "$(dirname "$0")/.."
for item in $1; do
  sid=${item%%:*}; checks=${item#*:}; P=${sid%%-*}; k=${sid##*-m}
  d=${SEED_SRC:-/tmp/seed}/$P/out/m$k
  [ -f $d/patch.diff ] || { echo "$sid: no patch"; continue; }
  notests=""; [ -f ${SEED_DEST:-.}/seeded/$sid/meta.json ] && grep -q '"tests_pass": true' ${SEED_DEST:-.}/seeded/$sid/meta.json && notests="--no-tests"
  python3 tools/seed_eval.py $d $sid ${checks//,/ } $notests > scratch/seedlogs/$sid.log 2>&1
  echo "$sid [$checks]: $(python3 -c "import json;m=json.load(open('${SEED_DEST:-.}/seeded/$sid/meta.json'));print('caught_by',m['caught_by'],'demo',m['confirmed']['demo_unchanged_exit'],m['confirmed']['demo_mutant_exit'],'tests',m['confirmed'].get('tests_pass'))" 2>&1)"
done
