#!/usr/bin/env python3
"""Evaluate one seeded breaking change against the checks.

usage: tools/seed_eval.py <dir with patch.diff demo.py meta.json> <seed id> <check ids...> [--tier quick] [--no-tests] [--seeds 0,1]

Confirms (in a scratch worktree of /repo's HEAD, removed afterwards) that the patch applies, the demonstration passes on
the unchanged tree and fails with the patch, and the repository's own test suite still passes with it; then runs the named
checks against the patched worktree (VERIF_REPO=<worktree>, outputs under a scratch VERIF_OUT) and records which of them
raise a VIOLATION.  Keeps the change under /verif/seeded/<seed id>/ (patch.diff, demo.py, meta.json).
"""
import argparse
import json
import os
import re
import shutil
import subprocess
import sys
import time

VERIF = os.path.dirname(os.path.dirname(os.path.abspath(__file__)))
PY = "/venv/bin/python"


def sh(cmd, cwd=None, env=None, timeout=3600):
    e = dict(os.environ)
    if env:
        e.update(env)
    p = subprocess.run(cmd, shell=True, cwd=cwd, env=e, capture_output=True, text=True, timeout=timeout)
    return p.returncode, (p.stdout + p.stderr)


def main():
    ap = argparse.ArgumentParser()
    ap.add_argument("src")
    ap.add_argument("sid")
    ap.add_argument("checks", nargs="*")
    ap.add_argument("--tier", default="quick")
    ap.add_argument("--no-tests", action="store_true")
    ap.add_argument("--seeds", default="0")
    ap.add_argument("--keep-existing-meta", action="store_true")
    a = ap.parse_args()
    wt = f"/tmp/mut/{a.sid}"
    out = f"/tmp/mut/{a.sid}.out"
    os.makedirs("/tmp/mut", exist_ok=True)
    sh(f"git -C /repo worktree remove --force {wt}")
    shutil.rmtree(wt, ignore_errors=True)
    shutil.rmtree(out, ignore_errors=True)
    rc, o = sh(f"git -C /repo worktree add --detach {wt} HEAD")
    assert rc == 0, o
    res = {"seed_id": a.sid, "repo_head": sh("git -C /repo rev-parse --short HEAD")[1].strip()}
    try:
        patch = os.path.join(a.src, "patch.diff")
        demo = os.path.join(a.src, "demo.py")
        rc, o = sh(f"git apply {patch}", cwd=wt)
        if rc != 0:
            rc, o = sh(f"git apply --3way {patch}", cwd=wt)
        res["patch_applies"] = rc == 0
        if rc != 0:
            res["patch_error"] = o[-500:]
            print(json.dumps(res, indent=1))
            return 1
        rc0, o0 = sh(f"{PY} {demo}", cwd="/tmp", env={"PYTHONPATH": "/repo"}, timeout=900)
        rc1, o1 = sh(f"{PY} {demo}", cwd="/tmp", env={"PYTHONPATH": wt}, timeout=900)
        res["demo_unchanged_exit"] = rc0
        res["demo_mutant_exit"] = rc1
        res["demo_mutant_tail"] = o1.strip().splitlines()[-1][:300] if o1.strip() else ""
        if not a.no_tests:
            rc, o = sh(f"{PY} -m pytest -q -p no:cacheprovider -n 8 dask_array 2>&1 | tail -3", cwd=wt, env={"PYTHONPATH": wt}, timeout=3000)
            m = re.search(r"(\d+) passed", o)
            res["tests"] = o.strip().splitlines()[-1][:200]
            res["tests_pass"] = bool(m) and " failed" not in o and " error" not in o
        caught = {}
        for c in a.checks:
            for seed in a.seeds.split(","):
                t0 = time.time()
                rc, o = sh(f"./check {c} --tier {a.tier}", cwd=VERIF, env={"VERIF_REPO": wt, "VERIF_OUT": out, "VERIF_SEED": seed}, timeout=3000)
                viol = [l for l in o.splitlines() if l.startswith("VIOLATION")]
                mechs = sorted(set(re.findall(r"mech=(\S+)", o)))
                caught.setdefault(c, []).append({"seed": int(seed), "exit": rc, "violations": len(viol), "mechanisms": mechs[:6], "wall_s": round(time.time() - t0)})
        res["checks"] = caught
        res["caught_by"] = sorted(c for c, runs in caught.items() if any(r["exit"] == 1 and r["violations"] for r in runs))
        dst = os.path.join(os.environ.get("SEED_DEST", VERIF), "seeded", a.sid)
        os.makedirs(dst, exist_ok=True)
        for src_f, name in ((patch, "patch.diff"), (demo, "demo.py")):
            if os.path.abspath(src_f) != os.path.abspath(os.path.join(dst, name)):
                shutil.copy(src_f, os.path.join(dst, name))
        meta = {}
        try:
            meta = json.load(open(os.path.join(a.src, "meta.json")))
        except Exception:
            pass
        prev = {}
        mp = os.path.join(dst, "meta.json")
        if os.path.exists(mp):
            try:
                prev = json.load(open(mp))
            except Exception:
                prev = {}
        merged = {
            "property": meta.get("property", a.sid.split("-")[0]),
            "files_changed": meta.get("files_changed"),
            "summary": meta.get("summary"),
            "needs_to_manifest": meta.get("needs_to_manifest"),
            "author": "independent sub-agent given only the property text and a scratch worktree",
            "confirmed": {k: res.get(k) for k in ("repo_head", "patch_applies", "demo_unchanged_exit", "demo_mutant_exit", "demo_mutant_tail", "tests", "tests_pass")},
            "ran": prev.get("ran", {}),
        }
        if a.no_tests and "confirmed" in prev:
            for k in ("tests", "tests_pass"):
                if merged["confirmed"].get(k) is None:
                    merged["confirmed"][k] = prev["confirmed"].get(k)
        for c, runs in caught.items():
            merged["ran"][c] = {"tier": a.tier, "runs": runs, "caught": any(r["exit"] == 1 and r["violations"] for r in runs)}
        merged["caught_by"] = sorted(c for c, r in merged["ran"].items() if r.get("caught"))
        json.dump(merged, open(mp, "w"), indent=1)
        print(json.dumps({k: res[k] for k in res if k != "checks"}, indent=1))
        for c, runs in caught.items():
            print(c, runs)
    finally:
        sh(f"git -C /repo worktree remove --force {wt}")
        shutil.rmtree(wt, ignore_errors=True)
        shutil.rmtree(out, ignore_errors=True)
    return 0


if __name__ == "__main__":
    sys.exit(main())
