#!/bin/bash
# usage: tools/seed_snap.sh <tag> "C01 C02 ..."  -- evaluates seeds from a snapshot of /verif HEAD (so that edits in /verif do not disturb the run); results land in /verif/seeded
tag=$1; shift
snap=/tmp/verif_snap_$tag
rm -rf $snap; git -C /verif worktree prune; git -C /verif worktree add --detach $snap HEAD >/dev/null 2>&1
mkdir -p $snap/scratch/seedlogs
( cd $snap && SEED_DEST=/verif tools/seed_batch.sh "$1" > /verif/scratch/seedlogs/batch_$tag.log 2>&1 )
git -C /verif worktree remove --force $snap
