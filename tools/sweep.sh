#!/bin/bash
# usage: tools/sweep.sh "C01 C02 ..." "1 2 3" [tier]   -> prints per check/seed the verdict line and new mechanisms
checks="$1"; seeds="$2"; tier="${3:-quick}"
for c in $checks; do
  for s in $seeds; do
    out=$(VERIF_SEED=$s timeout 3000 ./check $c --tier $tier 2>&1)
    rc=$?
    echo "== $c seed=$s rc=$rc $(echo "$out" | grep -E '^HELD|^INCONCLUSIVE' | cut -c1-160)"
    if [ $rc -ne 0 ]; then echo "$out" | grep -E "mech=|INCONCLUSIVE" | sort | uniq -c | cut -c1-300; fi
  done
done
