#!/bin/bash
# usage: tools/seed_snap2.sh <tag> "C06-m1:C06,C23 ..."
tag=$1; shift
snap=/tmp/verif_snap_$tag
rm -rf $snap; git -C /verif worktree prune; git -C /verif worktree add --detach $snap HEAD >/dev/null 2>&1
mkdir -p $snap/scratch/seedlogs
( cd $snap && SEED_DEST=/verif tools/seed_list.sh "$1" > /verif/scratch/seedlogs/batch_$tag.log 2>&1 )
git -C /verif worktree remove --force $snap
