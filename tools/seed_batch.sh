#!/bin/bash
# usage: tools/seed_batch.sh "C15 C16 ..."   evaluates /tmp/seed/<P>/out/m{1,2,3} against check <P> and C01
cd "$(dirname "$0")/.."
for P in $1; do
  for k in 1 2 3; do
    d=/tmp/seed/$P/out/m$k
    [ -f $d/patch.diff ] || continue
    extra="C01"; [ "$P" = "C01" ] && extra="C02"
    chk="$P $extra"
    [ -f vf/checks/$(echo $P | tr A-Z a-z).py ] || chk="$extra"
    python3 tools/seed_eval.py $d $P-m$k $chk > scratch/seedlogs/$P-m$k.log 2>&1
    echo "$P-m$k: $(grep -A3 caught_by ${SEED_DEST:-.}/seeded/$P-m$k/meta.json | tr -d '\n' | cut -c1-120)"
  done
done
